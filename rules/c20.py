"""C20 — mismatched shapes rejected; operands never mutated; clones independent."""
from .pdb import walk, strip, loc, ancestors as _anc
from .terms import Ctx, lin_add, lin_scale, lin_sub, num, show, base_ty
from .common import (P, F, LEN, SIZE, NE, GE, GT, EQ, effective_guards, entry_guards, rule_no_unsafe, rule_freeze,
                     receiver_mode, param_modes, forwards_to, callee_path, call_args, is_call_like, adt_of,
                     CONTAINERS, canon_atom, guard_alts, touches_storage, in_macro, single_expr_body, callee_generic)
from .guards import diverges, cond_atoms

LEVEL = "other"

ROWS, COLS = F(P(0), "rows"), F(P(0), "cols")


def _i(t):  # Banded / Tridiagonal index tuple components
    return F(P(1), "0"), F(P(1), "1")


def reject_table():
    V = "vector::Vector<T>"
    M = "matrix::Matrix<T>"
    B = "banded::Banded<T>"
    TD = "tridiagonal::Tridiagonal<T>"
    S = "sparse::Sparse<T>"
    S64 = "sparse::Sparse<f64>"
    vv = [("size", NE(SIZE(P(0)), SIZE(P(1))))]
    mm = [("rows", NE(ROWS, F(P(1), "rows"))), ("cols", NE(COLS, F(P(1), "cols")))]
    bb = [("n", NE(F(P(0), "n"), F(P(1), "n"))), ("m1", NE(F(P(0), "m1"), F(P(1), "m1"))), ("m2", NE(F(P(0), "m2"), F(P(1), "m2")))]
    bi, bj = _i(None)
    solver = [("rows-b", NE(ROWS, SIZE(P(1)))), ("square", NE(ROWS, COLS)), ("b-x", NE(SIZE(P(1)), SIZE(P(2))))]
    t = {
        # ---- Vector
        "<&%s as std::ops::Add<&%s>>::add" % (V, V): vv,
        "<&%s as std::ops::Sub<&%s>>::sub" % (V, V): vv,
        "<%s as std::ops::Add<&%s>>::add" % (V, V): vv,
        "<%s as std::ops::Sub<&%s>>::sub" % (V, V): vv,
        "<%s as std::ops::Add>::add" % V: vv,
        "<%s as std::ops::Sub>::sub" % V: vv,
        "<%s as std::ops::AddAssign>::add_assign" % V: vv,
        "<%s as std::ops::SubAssign>::sub_assign" % V: vv,
        "%s::dot" % V: vv,
        "vector::Vector<f64>::dot_f64": vv,
        "%s::sum_slice" % V: [("start>end", GT(P(1), P(2))), ("start", GE(P(1), SIZE(P(0)))), ("end", GE(P(2), SIZE(P(0))))],
        "%s::product_slice" % V: [("start>end", GT(P(1), P(2))), ("start", GE(P(1), SIZE(P(0)))), ("end", GE(P(2), SIZE(P(0))))],
        # ---- Matrix
        "<&%s as std::ops::Add<&%s>>::add" % (M, M): mm,
        "<&%s as std::ops::Sub<&%s>>::sub" % (M, M): mm,
        "<%s as std::ops::Add>::add" % M: mm,
        "<%s as std::ops::Sub>::sub" % M: mm,
        "<%s as std::ops::AddAssign<&%s>>::add_assign" % (M, M): mm,
        "<%s as std::ops::SubAssign<&%s>>::sub_assign" % (M, M): mm,
        "<%s as std::ops::AddAssign>::add_assign" % M: mm,
        "<%s as std::ops::SubAssign>::sub_assign" % M: mm,
        "<&%s as std::ops::Mul<&%s>>::mul" % (M, M): [("inner", NE(COLS, F(P(1), "rows")))],
        "<%s as std::ops::Mul>::mul" % M: [("inner", NE(COLS, F(P(1), "rows")))],
        "%s::multiply" % M: [("len", NE(SIZE(P(1)), COLS))],
        "<&%s as std::ops::Mul<&%s>>::mul" % (M, V): [("len", NE(SIZE(P(1)), COLS))],
        "<%s as std::ops::Mul<%s>>::mul" % (M, V): [("len", NE(SIZE(P(1)), COLS))],
        "%s::get_row" % M: [("row", GE(P(1), ROWS))],
        "%s::delete_row" % M: [("row", GE(P(1), ROWS))],
        "%s::fill_row" % M: [("row", GE(P(1), ROWS))],
        "%s::get_col" % M: [("col", GE(P(1), COLS))],
        "%s::fill_col" % M: [("col", GE(P(1), COLS))],
        "%s::set_row" % M: [("len", NE(SIZE(P(2)), COLS)), ("row", GE(P(1), ROWS))],
        "%s::set_col" % M: [("len", NE(SIZE(P(2)), ROWS)), ("col", GE(P(1), COLS))],
        "%s::swap_rows" % M: [("row1", GE(P(1), ROWS)), ("row2", GE(P(2), ROWS))],
        "%s::solve_basic" % M: [("rows-b", NE(ROWS, SIZE(P(1)))), ("square", NE(ROWS, COLS))],
        "%s::solve_lu" % M: [("rows-b", NE(ROWS, SIZE(P(1)))), ("square", NE(ROWS, COLS))],
        "%s::lu_decomp_in_place" % M: [("square", NE(ROWS, COLS))],
        "%s::inverse" % M: [("square", NE(ROWS, COLS))],
        "%s::determinant" % M: [("square", NE(ROWS, COLS))],
        # ---- Banded
        "<&%s as std::ops::Add<&%s>>::add" % (B, B): bb,
        "<&%s as std::ops::Sub<&%s>>::sub" % (B, B): bb,
        "<%s as std::ops::Add>::add" % B: bb,
        "<%s as std::ops::Sub>::sub" % B: bb,
        "<%s as std::ops::AddAssign<&%s>>::add_assign" % (B, B): bb,
        "<%s as std::ops::SubAssign<&%s>>::sub_assign" % (B, B): bb,
        "<%s as std::ops::AddAssign>::add_assign" % B: bb,
        "<%s as std::ops::SubAssign>::sub_assign" % B: bb,
        "<&%s as std::ops::Mul<&%s>>::mul" % (B, V): [("len", NE(F(P(0), "n"), SIZE(P(1))))],
        "<%s as std::ops::Mul<%s>>::mul" % (B, V): [("len", NE(F(P(0), "n"), SIZE(P(1))))],
        "%s::solve" % B: [("len", NE(F(P(0), "n"), SIZE(P(1))))],
        "%s::fill_band" % B: [("below", GT(lin_scale(F(P(0), "m1"), -1), P(1))), ("above", GT(P(1), F(P(0), "m2")))],
        "<%s as std::ops::Index<(usize, usize)>>::index" % B: [("above", GT(bj, lin_add(bi, F(P(0), "m2")))), ("below", GT(bi, lin_add(bj, F(P(0), "m1"))))],
        "<%s as std::ops::IndexMut<(usize, usize)>>::index_mut" % B: [("above", GT(bj, lin_add(bi, F(P(0), "m2")))), ("below", GT(bi, lin_add(bj, F(P(0), "m1"))))],
        # ---- Tridiagonal
        "%s::with_vectors" % TD: [("sub", NE(SIZE(P(0)), lin_add(SIZE(P(1)), num(-1)))), ("sup", NE(SIZE(P(2)), lin_add(SIZE(P(1)), num(-1))))],
        "%s::with_vecs" % TD: [("sub", NE(LEN(P(0)), lin_add(LEN(P(1)), num(-1)))), ("sup", NE(LEN(P(2)), lin_add(LEN(P(1)), num(-1))))],
        "<%s as std::ops::Add>::add" % TD: [("n", NE(F(P(0), "n"), F(P(1), "n")))],
        "<%s as std::ops::Sub>::sub" % TD: [("n", NE(F(P(0), "n"), F(P(1), "n")))],
        "<&%s as std::ops::Mul<&%s>>::mul" % (TD, V): [("len", NE(F(P(0), "n"), SIZE(P(1))))],
        "<%s as std::ops::Mul<%s>>::mul" % (TD, V): [("len", NE(F(P(0), "n"), SIZE(P(1))))],
        "%s::solve" % TD: [("len", NE(F(P(0), "n"), SIZE(P(1))))],
        "<%s as std::ops::Index<(usize, usize)>>::index" % TD: [("i", GE(bi, F(P(0), "n"))), ("j", GE(bj, F(P(0), "n")))],
        "<%s as std::ops::IndexMut<(usize, usize)>>::index_mut" % TD: [("i", GE(bi, F(P(0), "n"))), ("j", GE(bj, F(P(0), "n")))],
        "%s::convert" % TD: [("empty", EQ(F(P(0), "n"), num(0)))],
        # ---- Sparse
        "%s::get" % S: [("row", GE(P(1), ROWS)), ("col", GE(P(2), COLS)), ("col-start", GE(P(2), LEN(F(P(0), "col_start"))))],
        "%s::insert" % S: [("row", GE(P(1), ROWS)), ("col", GE(P(2), COLS)), ("col-start", GE(P(2), LEN(F(P(0), "col_start"))))],
        "%s::multiply" % S: [("len", NE(COLS, SIZE(P(1))))],
        "%s::transpose_multiply" % S: [("len", NE(ROWS, SIZE(P(1))))],
        "%s::col_index" % S: [("col-start", GT(lin_add(COLS, num(1)), LEN(F(P(0), "col_start"))))],
        "%s::solve_cg" % S64: solver,
        "%s::solve_bicg" % S64: solver,
        "%s::solve_bicgstab" % S64: solver,
        "%s::solve_qmr" % S64: solver,
        # ---- Meshes
        "mesh1d::Mesh1D<T, X>::set_nodes_vars": [("node", GE(P(1), SIZE(F(P(0), "nodes")))), ("nvars", NE(SIZE(P(2)), F(P(0), "nvars")))],
        "mesh1d::Mesh1D<T, X>::get_nodes_vars": [("node", GE(P(1), SIZE(F(P(0), "nodes"))))],
        "mesh2d::Mesh2D<T>::set_nodes_vars": [("nodex", GE(P(1), F(P(0), "nx"))), ("nodey", GE(P(2), F(P(0), "ny"))), ("nvars", NE(SIZE(P(3)), F(P(0), "nvars")))],
        "mesh2d::Mesh2D<T>::get_nodes_vars": [("nodex", GE(P(1), F(P(0), "nx"))), ("nodey", GE(P(2), F(P(0), "ny")))],
        "mesh2d::Mesh2D<T>::var_as_matrix": [("var", GE(P(1), F(P(0), "nvars")))],
        # ---- Polynomial
        "<polynomial::Polynomial<T> as std::ops::Index<usize>>::index": [("i", GE(P(1), LEN(F(P(0), "coeffs"))))],
        "<polynomial::Polynomial<T> as std::ops::IndexMut<usize>>::index_mut": [("i", GE(P(1), LEN(F(P(0), "coeffs"))))],
        "polynomial::Polynomial<complex::Complex<f64>>::poly_solve": [("degree0", EQ(lin_add(SIZE(P(0)), num(-1)), num(0)))],
    }
    return t


# (method, std callee suffix, argument positions) — rejection is the bounds check of the std method forwarded to
STD_FORWARD = {
    "vector::Vector<T>::swap": "swap",
    "vector::Vector<T>::insert": "insert",
    "vector::Vector<T>::pop": "pop",
}


def rule_reject(rep, pdb):
    table = reject_table()
    for path, reqs in sorted(table.items()):
        fn = pdb.fn(path)
        if fn is None:
            rep.missing("reject/%s" % path, "entry point of the reject table exists", "function %s not found in the tree" % path)
            continue
        ctx = Ctx.for_fn(pdb, fn)
        eff = effective_guards(pdb, fn)
        for label, atom in reqs:
            key = "reject/%s/%s" % (path, label)
            rule = ("mismatch condition leads to panic! before any storage access (own guard, or the guard of the "
                    "function it forwards to first); equality guards are !=-form, range guards bound the argument by the dimension it is used against")
            if atom in eff:
                rep.ok(key, rule, eff[atom], "guard `%s` found" % _show_atom(atom, ctx))
            else:
                near = _nearest(atom, eff, ctx)
                rep.bad(key, rule, fn["body"], "no guard equivalent to `%s` dominates the storage accesses of %s%s" % (
                    _show_atom(atom, ctx), path, near), where="%s:%d" % (fn["file"], fn["span"][0]))
    # from_triplets: per-triplet range checks before the triplet is stored
    _from_triplets(rep, pdb)
    # std-forwarded rejections
    for path, meth in STD_FORWARD.items():
        fn = pdb.fn(path)
        key = "reject-std/%s" % path
        rule = "the method is a forwarding call to the std method whose own bounds check rejects the argument"
        if fn is None:
            rep.missing(key, rule, "function not found")
            continue
        found = None
        for n in walk(fn["body"]):
            if n.get("k") == "MethodCall" and n.get("name") == meth and not n.get("fn_local"):
                found = n
        ctx = Ctx.for_fn(pdb, fn)
        ok = found is not None and [ctx.term(a) for a in found.get("args", [])] == [("param", i + 1) for i in range(len(fn["params"]) - 1)]
        rep.add(key, rule, ok, found or fn["body"], "forwards to %s" % (callee_path(found) if found else None))
    # roots -> poly_solve
    for path in ("polynomial::Polynomial<f64>::roots", "polynomial::Polynomial<complex::Complex<f64>>::roots"):
        fn = pdb.fn(path)
        key = "reject-via/%s" % path
        rule = "roots returns only through poly_solve (which rejects degree 0 before touching storage)"
        if fn is None:
            rep.missing(key, rule, "function not found")
            continue
        tail = fn["body"].get("expr")
        tail = strip(tail) if tail else None
        ok = tail is not None and tail.get("k") == "Call" and callee_path(tail) == "polynomial::Polynomial<complex::Complex<f64>>::poly_solve"
        rets = [n for n in walk(fn["body"]) if n.get("k") == "Ret"]
        rep.add(key, rule, ok and not rets, tail or fn["body"], "tail=%s early-returns=%d" % (callee_path(tail) if tail else None, len(rets)))
    # cross sections reach get_nodes_vars
    for path, fixed in (("mesh2d::Mesh2D<T>::cross_section_xnode", 1), ("mesh2d::Mesh2D<T>::cross_section_ynode", 2)):
        fn = pdb.fn(path)
        key = "reject-via/%s" % path
        rule = ("the node argument is range-checked on every call: an explicit `>= nx/ny` panic guard at entry, or the checked accessor get_nodes_vars reached "
                "unconditionally (a call inside the loop over the OTHER axis is not reached when that axis is empty); self.vars is not indexed directly")
        if fn is None:
            rep.missing(key, rule, "function not found")
            continue
        ctx = Ctx.for_fn(pdb, fn)
        calls = [n for n in walk(fn["body"]) if n.get("k") == "MethodCall" and callee_path(n) == "mesh2d::Mesh2D<T>::get_nodes_vars"]
        direct = [n for n in walk(fn["body"]) if n.get("k") == "Index"]
        ok = bool(calls) and all(ctx.term(call_args(c)[fixed]) == ("param", 1) for c in calls) and not direct
        in_loop = all(any(a.get("k") in ("For", "While", "Loop", "If") for a in _anc(c)) for c in calls)
        dim = F(P(0), "nx" if fixed == 1 else "ny")
        guarded = GE(P(1), dim) in effective_guards(pdb, fn)
        ok = ok and (guarded or not in_loop)
        if guarded and not calls and direct:
            # with the explicit entry guard the storage may be indexed directly: every such access must put the checked
            # argument in its own flat position (node * ny + other / other * ny + node), the other component being a loop variable
            from .common import index_requirements
            ok = True
            for n in direct:
                reqs = index_requirements(pdb, ctx, n)
                if ctx.term(n["base"]) == F(P(0), "vars"):
                    ok = ok and len(reqs) == 2 and reqs[0 if fixed == 1 else 1][0] == P(1)
        rep.add(key, rule, ok, calls[0] if calls else fn["body"], "calls=%d direct-index=%d explicit entry guard=%s accessor only inside a loop=%s" % (len(calls), len(direct), guarded, in_loop))


def rule_var_guard(rep, pdb):
    """The variable index of the mesh integrals / apply is used only inside the loops over the nodes: it needs an explicit
    entry guard, or a mesh with too few nodes for the loops to run accepts any index silently."""
    for path, vpos, nv in (("mesh1d::Mesh1D<f64, f64>::trapezium", 1, F(P(0), "nvars")), ("mesh2d::Mesh2D<f64>::trapezium", 1, F(P(0), "nvars")),
                           ("mesh2d::Mesh2D<f64>::square_trapezium", 1, F(P(0), "nvars")), ("mesh2d::Mesh2D<T>::apply", 2, F(P(0), "nvars"))):
        fn = pdb.fn(path)
        key = "reject/%s/var" % path
        rule = "the variable index is rejected (`var >= nvars` panics) at entry, before and independently of the loops over the nodes"
        if fn is None:
            rep.missing(key, rule, "function not found")
            continue
        ctx = Ctx.for_fn(pdb, fn)
        uses = [n for n in walk(fn["body"]) if n.get("k") == "Index" and ctx.term(n["idx"]) == P(vpos)]
        outside = [n for n in uses if not any(a.get("k") in ("For", "While", "Loop", "If") for a in _anc(n))]
        guarded = GE(P(vpos), nv) in effective_guards(pdb, fn)
        rep.add(key, rule, guarded or bool(outside), uses[0] if uses else fn["body"], "explicit entry guard=%s uses=%d of which outside every loop=%d" % (guarded, len(uses), len(outside)))


def _show_atom(a, ctx):
    kind, L = a
    sym = {"ne0": "!= 0", "ge0": ">= 0", "eq0": "== 0"}[kind]
    return "%s %s" % (show(L, ctx), sym)


def _nearest(atom, eff, ctx):
    if not eff:
        return " (no panic guard precedes the first storage access)"
    return "; guards present: " + ", ".join("`%s`" % _show_atom(a, ctx) for a in list(eff)[:6])


def _from_triplets(rep, pdb):
    path = "sparse::Sparse<T>::from_triplets"
    fn = pdb.fn(path)
    rule = "each triplet's row and column are range-checked (>= rows / >= cols panics) before the triplet is stored"
    if fn is None:
        rep.missing("reject/%s" % path, rule, "function not found")
        return
    ctx = Ctx.for_fn(pdb, fn)
    loops = [n for n in walk(fn["body"]) if n.get("k") == "For"]
    done = {"row": False, "col": False}
    where = fn["body"]
    for lp in loops:
        pat = lp["pat"]
        if pat.get("k") != "Bind":
            continue
        tv = ("var", pat["v"])
        body = lp["body"]
        guards = entry_guards(pdb, ctx, body)
        want = {"row": GE(("field", tv, "0"), F(P(0), "0")[1] if False else P(0)), "col": GE(("field", tv, "1"), P(1))}
        for g in guards:
            if g.kind != "panic":
                continue
            # nothing may have been pushed before the guard
            pushed_before = False
            for s in body.get("stmts", [])[:g.index]:
                for x in walk(s):
                    if x.get("k") == "MethodCall" and x.get("name") == "push":
                        pushed_before = True
            for alt in g.alts:
                if len(alt) == 1:
                    (a,) = alt
                    for lab, w in want.items():
                        if a == w and not pushed_before:
                            done[lab] = True
                            where = g.node
    for lab in ("row", "col"):
        rep.add("reject/%s/%s" % (path, lab), rule, done[lab], where, "guard %s" % ("found" if done[lab] else "missing or after a push"))


# ---------------------------------------------------------------- operands intact (E)

def rule_operands_intact(rep, pdb):
    unsafe_free = rule_no_unsafe(rep, pdb)
    rule_freeze(rep, pdb, CONTAINERS[:8])
    # Complex<T>/Newton<T>: bare T is not known Freeze; query the concrete instantiations the property names
    for ty in ("complex::Complex<f64>", "newton::Newton<f64>", "newton::Newton<complex::Complex<f64>>",
               "newton::Newton<vector::Vector<f64>>", "newton::Newton<vector::Vector<complex::Complex<f64>>>",
               "vector::Vector<f64>", "matrix::Matrix<f64>", "sparse::Sparse<f64>"):
        tf = pdb.tyfacts.get(ty)
        if tf is None:
            rep.missing("freeze-inst/%s" % ty, "instantiation appears in the crate", "type %s not seen by the driver" % ty)
        else:
            rep.add("freeze-inst/%s" % ty, "rustc's is_freeze query on the concrete instantiation", tf["freeze"],
                    where="crate ohsl", msg="is_freeze=%s" % tf["freeze"], proof=True)
    n_ref = 0
    exceptions = []
    for fn in pdb.local_fns():
        if not fn.get("pub") and not fn.get("impl_trait"):
            continue
        st = adt_of(fn.get("impl_self", "")) if fn.get("impl_self") else None
        modes = param_modes(fn)
        ins = fn.get("inputs", [])
        for i, (m, t) in enumerate(zip(modes, ins)):
            a = adt_of(t)
            if a not in CONTAINERS and not base_ty(t).startswith("std::vec::Vec"):
                continue
            if m == "ref":
                n_ref += 1
                rep.add("operands-intact/%s/arg%d" % (fn["path"], i),
                        "parameter is a shared reference to Freeze data in a crate without unsafe: the callee cannot change the operand",
                        unsafe_free, where="%s:%d" % (fn["file"], fn["span"][0]), msg="%s" % t, proof=True, nontrivial=True)
            elif m == "mut" and i > 0:
                exceptions.append((fn["path"], i, t))
    for p, i, t in exceptions:
        rep.info("operands-intact/exception/%s/arg%d" % (p, i), "reported by name: takes &mut to an operand by design", t)
    return {"ref_params": n_ref, "mut_operand_exceptions": ["%s arg%d %s" % e for e in exceptions]}


# ---------------------------------------------------------------- owned == borrowed (S)

OPS = {"std::ops::Add": "add", "std::ops::Sub": "sub", "std::ops::Mul": "mul", "std::ops::Div": "div", "std::ops::Neg": "neg",
       "std::ops::AddAssign": "add_assign", "std::ops::SubAssign": "sub_assign"}


def rule_owned_equals_borrowed(rep, pdb):
    """Every consuming operator impl that has a borrowing counterpart is a single forwarding call to it with
    the operands in the same order."""
    impls = {}
    for fn in pdb.local_fns():
        tr = fn.get("impl_trait")
        if tr in OPS and fn.get("name") == OPS[tr]:
            impls[fn["path"]] = fn
    n = 0
    for path, fn in sorted(impls.items()):
        st = fn["impl_self"]
        if st.startswith("&"):
            continue
        targs = fn.get("impl_trait_args", [])
        rhs = targs[1] if len(targs) > 1 else None
        # the borrowing counterpart: impl Trait<&Rhs'> for &Self  (Rhs scalar stays as is)
        tr = fn["impl_trait"]
        cands = []
        for q, g in impls.items():
            if g is fn or g["impl_trait"] != tr:
                continue
            gs = g["impl_self"]
            ga = g.get("impl_trait_args", [])
            grhs = ga[1] if len(ga) > 1 else None
            if tr.endswith("Assign"):
                if gs == st and grhs is not None and rhs is not None and grhs.lstrip("&") == rhs and grhs.startswith("&"):
                    cands.append(g)
            else:
                if gs.lstrip("&") == st and gs.startswith("&"):
                    if rhs is None or grhs is None or grhs.lstrip("&") == rhs.lstrip("&"):
                        cands.append(g)
        # additionally: half-borrowing forms (Vector + &Vector) count as counterparts of the fully owned form
        if not cands:
            continue
        fw = forwards_to(pdb, fn)
        key = "owned-equals-borrowed/%s" % path
        rule = "the consuming operator impl is one forwarding call to a borrowing impl of the same trait with the operands in the same order"
        n += 1
        if fw is None:
            # not forwarding: the owned and the borrowed form are then identical when each is, on its own, the definitional element-wise
            # loop of the trait's operator (same operator, operand order, co-indexing, full range: the rule instances of C03 / C15)
            both = False
            try:
                from .common import rule_elementwise
                from .report import Report as _R
                tmp = _R("tmp")
                for g_ in [fn] + cands:
                    if forwards_to(pdb, g_) is None:
                        rule_elementwise(tmp, pdb, g_)
                both = bool(tmp.results) and not tmp.violations()
            except Exception:
                both = False
            if both:
                rep.add(key, rule + " (or both forms are, each on its own, the definitional element-wise loop)", True, fn["body"],
                        "owned and borrowed forms are both the element-wise loop of the operator", where="%s:%d" % (fn["file"], fn["span"][0]))
                continue
            rep.bad(key, rule, fn["body"], "body is not a single forwarding call", where="%s:%d" % (fn["file"], fn["span"][0]))
            continue
        callee, idxs, node = fw
        cf = pdb.fn(callee) if callee else None
        same_trait = cf is not None and cf.get("impl_trait") == tr and cf.get("name") == fn.get("name")
        borrowing = cf is not None and (cf["impl_self"].startswith("&") or (len(cf.get("impl_trait_args", [])) > 1 and cf["impl_trait_args"][1].startswith("&")))
        in_order = idxs == list(range(len(idxs))) and len(idxs) == len(fn["params"])
        ok = same_trait and borrowing and in_order
        if not ok and in_order:
            # both forms forward to one and the same method with the same operand order
            for g in cands:
                gfw = forwards_to(pdb, g)
                if gfw is not None and gfw[0] == callee and gfw[1] == idxs:
                    ok = True
        rep.add(key, rule + " (or both forms forward to the same method in the same order)", ok, node,
                "forwards to %s with parameter order %s" % (callee, idxs))
    return n


# ---------------------------------------------------------------- clones

def rule_clone_independent(rep, pdb):
    types = ["vector::Vector", "matrix::Matrix", "banded::Banded", "tridiagonal::Tridiagonal", "polynomial::Polynomial", "complex::Complex"]
    for tp in types:
        a = pdb.adts.get(tp)
        clone = [f for f in pdb.local_fns() if f.get("impl_trait") == "std::clone::Clone" and adt_of(f.get("impl_self", "")) == tp and f.get("name") == "clone"]
        key = "clone-independent/%s" % tp
        rule = "Clone builds every field from a clone (or Copy) of the same field of self; the type owns all its storage"
        if a is None or not clone:
            rep.missing(key, rule, "type or Clone impl not found")
            continue
        fn = clone[0]
        if fn.get("derived"):
            rep.ok(key, rule, fn["body"], "#[derive(Clone)] (field-wise clone generated by rustc)", where="%s:%d" % (fn["file"], fn["span"][0]))
            continue
        ctx = Ctx.for_fn(pdb, fn)
        from .common import ctor_summary
        summ = ctor_summary(pdb, fn)
        if summ is None:
            rep.bad(key, rule, fn["body"], "clone does not end in a struct literal / constructor call", where="%s:%d" % (fn["file"], fn["span"][0]))
            continue
        bad = []
        for f in a["fields"]:
            t = summ.get(f["name"])
            if t != ("field", ("param", 0), f["name"]):
                bad.append("%s := %s" % (f["name"], show(t, ctx) if t else None))
        rep.add(key, rule, not bad, fn["body"], "fields ok" if not bad else "fields not cloned from self: %s" % bad,
                where="%s:%d" % (fn["file"], fn["span"][0]))
    # an overridden `clone_from` is a second way of cloning: it has to bring over every field too (`*self = ..` or all of them)
    from .common import field_writes
    for fn in [f for f in pdb.local_fns() if f.get("impl_trait") == "std::clone::Clone" and f.get("name") == "clone_from" and not f.get("derived")]:
        tp = adt_of(fn.get("impl_self", ""))
        a = pdb.adts.get(tp)
        if a is None:
            continue
        w = field_writes(pdb, fn)
        missing = [f_["name"] for f_ in a["fields"] if f_["name"] not in w and "*" not in w]
        rep.add("clone-independent/%s/clone_from" % tp, "an overridden clone_from writes every field of the target (a field it forgets keeps the target's old value: the result is not a clone of the source)",
                not missing, fn["body"], "fields written: %s; not written: %s" % (sorted(w), missing), where="%s:%d" % (fn["file"], fn["span"][0]))
    # Sparse is not Clone (scope of the clause)
    sp = [f for f in pdb.local_fns() if f.get("impl_trait") == "std::clone::Clone" and adt_of(f.get("impl_self", "")) == "sparse::Sparse"]
    rep.info("clone-independent/sparse", "Sparse has %d Clone impl(s) (outside the clone clause when 0)" % len(sp))


def run(rep, pdb, tier):
    rule_reject(rep, pdb)
    rule_var_guard(rep, pdb)
    extra = rule_operands_intact(rep, pdb)
    n = rule_owned_equals_borrowed(rep, pdb)
    rule_clone_independent(rep, pdb)
    rep.floor("reject/", 110)
    rep.floor("owned-equals-borrowed/", 24)
    rep.floor("operands-intact/", 100)
    rep.floor("clone-independent/", 6)
    rep.assumptions += [
        "element types are Freeze (true for f64, Complex<f64>, integers and plain-data rationals; every by-reference operator also requires T: Copy)",
        "the raw (i,j) index operators of Matrix, Banded (per-dimension range) and Mesh2D are outside the claim, as the property states",
        "std's Vec/slice methods panic on out-of-range arguments (swap/insert/pop/index)",
    ]
    extra["owned_forms_checked"] = n
    return extra
