"""T — term normaliser.

Maps typed-HIR expressions to canonical symbolic terms (hashable tuples):

  ('num', Fraction)                literal number
  ('param', i)                     i-th parameter of the function under analysis
  ('var', id)                      a local that is mutable / loop-bound / otherwise not inlinable
  ('field', t, name)               field read
  ('len', t)                       Vec / slice / Vector length
  ('idx', base, index)             index expression (overloaded or builtin)
  ('tup', t1, t2, ...)             tuple
  ('lin', c, ((atom, coef), ...))  integer linear form (only for integer-typed expressions)
  ('op', sym, a, b)                other binary operation (no re-association, no commutation here)
  ('neg', t) / ('not', t)
  ('call', path, recv_or_args...)  any other call, keyed by the canonical callee name
  ('def', path)                    reference to a const / static / fn item
  ('str', s) / ('bool', b)

References, derefs, `.clone()` of Copy/Clone values, `as` casts between integer types and
single-expression blocks are transparent.  Immutable `let`s are inlined, trivial getters
(discovered from the PDB, not hard-coded) are inlined, so `rows` <-> `rows()`, `size()` <->
`vec.len()` and introducing a `let` for a sub-expression do not change a term.
"""
from fractions import Fraction

from .pdb import children, walk, strip

INT_TYS = {"usize", "isize", "u8", "u16", "u32", "u64", "u128", "i8", "i16", "i32", "i64", "i128"}
FLOAT_TYS = {"f32", "f64"}

CLONE_FNS = {"std::clone::Clone::clone", "std::borrow::ToOwned::to_owned"}
LEN_IMPLS = ("std::vec::Vec<T, A>::len", "[T]::len", "std::vec::Vec<T>::len")


def num(x):
    return ("num", Fraction(x))


ZERO = num(0)
ONE = num(1)


def is_num(t):
    return t[0] == "num"


# ---------------------------------------------------------------- linear forms

def lin_parts(t):
    """Return (const, {atom: coef}) for a term viewed as a linear form."""
    if t[0] == "num":
        return t[1], {}
    if t[0] == "lin":
        return t[1], dict(t[2])
    return Fraction(0), {t: Fraction(1)}


def mk_lin(c, atoms):
    atoms = {a: k for a, k in atoms.items() if k != 0}
    if not atoms:
        return ("num", Fraction(c))
    if c == 0 and len(atoms) == 1:
        (a, k), = atoms.items()
        if k == 1:
            return a
    return ("lin", Fraction(c), tuple(sorted(atoms.items(), key=lambda kv: repr(kv[0]))))


def lin_add(a, b, sign=1):
    ca, aa = lin_parts(a)
    cb, ab = lin_parts(b)
    out = dict(aa)
    for k, v in ab.items():
        out[k] = out.get(k, 0) + sign * v
    return mk_lin(ca + sign * cb, out)


def lin_scale(a, k):
    ca, aa = lin_parts(a)
    return mk_lin(ca * k, {x: v * k for x, v in aa.items()})


def lin_mul(a, b):
    if is_num(a):
        return lin_scale(b, a[1])
    if is_num(b):
        return lin_scale(a, b[1])
    # product of two non-constants: distribute if one side is a sum, else an opaque commutative atom
    ca, aa = lin_parts(a)
    cb, ab = lin_parts(b)
    if a[0] == "lin" or b[0] == "lin":
        out = mk_lin(ca * cb, {})
        for x, kx in aa.items():
            out = lin_add(out, lin_scale(b_atom_times(x, cb, ab), kx))
        if ca != 0:
            out = lin_add(out, lin_scale(mk_lin(0, ab), ca))
        return out
    return mul_atom(a, b)


def b_atom_times(x, cb, ab):
    out = lin_scale(x, cb) if cb != 0 else ZERO
    for y, ky in ab.items():
        out = lin_add(out, lin_scale(mul_atom(x, y), ky))
    return out


def mul_atom(a, b):
    fa = list(a[1:]) if a[0] == "mul" else [a]
    fb = list(b[1:]) if b[0] == "mul" else [b]
    return ("mul",) + tuple(sorted(fa + fb, key=repr))


def lin_sub(a, b):
    return lin_add(a, b, -1)


def const_of(t):
    """If t is a constant return it (Fraction) else None."""
    return t[1] if t[0] == "num" else None


# ---------------------------------------------------------------- per-function context

def ty_of(n):
    return n.get("ty", "")


def base_ty(s):
    """Strip references from a type string."""
    s = s.strip()
    while s.startswith("&"):
        s = s[1:].lstrip()
        if s.startswith("mut "):
            s = s[4:]
        if s.startswith("'"):
            s = s.split(" ", 1)[1] if " " in s else s
    return s.strip()


class Bind:
    __slots__ = ("v", "name", "kind", "mut", "idx", "init", "node", "proj", "ty")

    def __init__(self, v, name, kind, mut=False, idx=None, init=None, node=None, proj=None, ty=""):
        self.v, self.name, self.kind, self.mut = v, name, kind, mut
        self.idx, self.init, self.node, self.proj, self.ty = idx, init, node, proj, ty


def pat_binds(p, path=()):
    """Yield (bind_pat, projection path) for every binding in pattern p."""
    k = p.get("k")
    if k == "Bind":
        yield p, path
        if p.get("sub"):
            yield from pat_binds(p["sub"], path)
    elif k in ("Tuple", "TupleStruct", "Or"):
        for i, q in enumerate(p.get("ps", [])):
            yield from pat_binds(q, path + (i,))
    elif k == "Struct":
        for f in p.get("fields", []):
            yield from pat_binds(f["pat"], path + (f["name"],))
    elif k == "Ref":
        yield from pat_binds(p["p"], path)


class Ctx:
    """Analysis context of one function body."""

    def __init__(self, pdb, fn):
        self.pdb = pdb
        self.fn = fn
        self.binds = {}
        self.assigns = {}     # local id -> [assign nodes]
        self.addr_mut = set()  # locals whose address is taken mutably
        self.mutations = {}   # root term -> [(kind, node)]  kind: 'whole' | 'field:<name>' | 'elem'
        self._collect()
        self._cache = {}
        self._dw_busy = set()

    # ---- binding table
    def _collect(self):
        fn = self.fn
        for i, p in enumerate(fn.get("params", [])):
            for b, path in pat_binds(p):
                kind = "param" if not path else "parampat"
                self.binds[b["v"]] = Bind(b["v"], b["name"], kind, b.get("mut", False), idx=i, proj=path, ty=b.get("ty", ""))
        for n in walk(fn["body"]):
            k = n.get("k")
            if k == "Let":
                pat = n["pat"]
                for b, path in pat_binds(pat):
                    self.binds[b["v"]] = Bind(b["v"], b["name"], "let", b.get("mut", False), init=n.get("init"),
                                              node=n, proj=path, ty=b.get("ty", ""))
            elif k == "For":
                for b, path in pat_binds(n["pat"]):
                    self.binds[b["v"]] = Bind(b["v"], b["name"], "loopvar", b.get("mut", False), node=n, proj=path, ty=b.get("ty", ""))
            elif k == "Match":
                for arm in n.get("arms", []):
                    for b, path in pat_binds(arm["pat"]):
                        self.binds[b["v"]] = Bind(b["v"], b["name"], "arm", b.get("mut", False), node=arm, init=n.get("scrut"),
                                                  proj=path, ty=b.get("ty", ""))
            elif k == "Closure":
                for i, p in enumerate(n.get("params", [])):
                    for b, path in pat_binds(p):
                        self.binds[b["v"]] = Bind(b["v"], b["name"], "cparam", b.get("mut", False), idx=i, node=n, proj=path, ty=b.get("ty", ""))
            elif k == "LetCond":
                for b, path in pat_binds(n["pat"]):
                    self.binds[b["v"]] = Bind(b["v"], b["name"], "arm", b.get("mut", False), node=n, init=n.get("init"), proj=path, ty=b.get("ty", ""))
            elif k in ("Assign", "AssignOp"):
                root = lvalue_root(n["l"])
                if root is not None:
                    self.assigns.setdefault(root, []).append(n)
                    pth, hi = lvalue_path(n["l"])
                    self._mut(root, (pth, "elem" if hi else "replace"), n)
            elif k == "AddrOf" and n.get("mut"):
                root = lvalue_root(n["e"])
                if root is not None:
                    self.addr_mut.add(root)
                    self._mut(root, self._addr_kind(n), n)
            elif k == "MethodCall":
                r = n["recv"]
                adj = r.get("adj", "")
                if adj.startswith("&mut") or (r.get("ty", "").startswith("&mut") and not adj):
                    root = lvalue_root(r)
                    if root is not None:
                        self._mut(root, self._recv_kind(n), n)

    def _mut(self, root, kind, node):
        b = self.binds.get(root)
        key = ("param", b.idx) if (b is not None and b.kind == "param") else ("var", root)
        self.mutations.setdefault(key, []).append((kind, node))

    def _recv_kind(self, call):
        """How a `&mut self` method call may change its receiver: (path, mode).  Local callees that never
        write integer fields / `*self` only change elements; anything else may replace the place."""
        from .common import writes_dims
        path, has_index = lvalue_path(call["recv"])
        if has_index:
            return (path, "elem")
        p = call.get("impl") or call.get("fn")
        cf = self.pdb.fn(p) if p else None
        if cf is not None and not writes_dims(self.pdb, cf):
            return (path, "elem")
        # a method taking the receiver as a slice `&mut [T]` cannot change its length: elements only
        adj = str(call["recv"].get("adj", ""))
        if str(call.get("fn", "")).startswith("[T]::") and (adj.startswith("&mut [") or str(call["recv"].get("ty", "")).startswith("&mut [")):
            return (path, "elem")
        return (path, "replace")

    def _addr_kind(self, addr):
        """`&mut x` passed somewhere: if it is an argument of a local fn that never writes dims through that
        parameter, only elements can change."""
        from .common import param_writes_dims
        path, has_index = lvalue_path(addr["e"])
        if has_index:
            return (path, "elem")
        par = addr.get("_p")
        if par is not None and par.get("k") in ("Call", "MethodCall"):
            pth = (par.get("impl") or par.get("fn")) if par.get("k") == "MethodCall" else \
                ((par["f"].get("impl") or par["f"].get("fn")) if par["f"].get("k") == "Def" else None)
            cf = self.pdb.fn(pth) if pth else None
            if cf is not None:
                args = ([par["recv"]] if par.get("k") == "MethodCall" else []) + list(par.get("args", []))
                for i, a in enumerate(args):
                    if a is addr and not param_writes_dims(self.pdb, cf, i):
                        return (path, "elem")
        return (path, "replace")

    def bind_of(self, n):
        if n.get("k") == "Local":
            return self.binds.get(n["v"])
        return None

    def is_self(self, n):
        n = deref(n)
        b = self.bind_of(n)
        return b is not None and b.kind == "param" and b.idx == 0 and b.name == "self"

    # ---- terms
    def term(self, n, subst=None):
        if subst is not None:
            return self._term(n, subst)
        key = id(n)
        c = self._cache.get(key)
        if c is not None:
            return c
        t = self._term(n, None)
        self._cache[key] = t
        return t

    def _term(self, n, subst):
        k = n.get("k")
        ty = base_ty(ty_of(n))
        if k == "Lit":
            v = n["v"]
            if v in ("true", "false"):
                return ("bool", v == "true")
            if v.startswith('"') or v.startswith("'"):
                return ("str", v)
            try:
                return ("num", Fraction(v.replace("_", "")))
            except Exception:
                return ("str", v)
        if k == "Local":
            b = self.binds.get(n["v"])
            if b is None:
                return ("var", n["v"])
            if b.kind == "param":
                t = ("param", b.idx)
                if subst is not None and t in subst:
                    return subst[t]
                return t
            if b.kind == "parampat":
                t = ("param", b.idx)
                if subst is not None and t in subst:
                    t = subst[t]
                return project(t, b.proj)
            if b.kind == "arm" and b.node is not None and b.node.get("k") != "LetCond" and not b.mut:
                t = self._arm_payload(b, subst)
                if t is not None:
                    return t
            if b.kind == "let" and not b.mut and b.init is not None and b.v not in self.addr_mut:
                t = self.term(b.init, subst)
                if subst is not None or self._let_inlinable(b, t, n):
                    return project(t, b.proj)
            return ("var", n["v"])
        if k == "Field":
            bt = self.term(n["e"], subst)
            return project(bt, (n["name"],))
        if k == "AddrOf":
            return self.term(n["e"], subst)
        if k == "Unary":
            op = n["op"]
            if op == "!":
                # !(a || b) is !a && !b, !(a && b) is !a || !b (short-circuit order kept)
                inner = strip(n["e"])
                if inner.get("k") == "Binary" and inner.get("op") in ("||", "&&") and not inner.get("m"):
                    def _neg(x_):
                        return {"k": "Unary", "op": "!", "e": x_, "ty": "bool", "sp": x_.get("sp"), "id": None}
                    return ("op", "&&" if inner["op"] == "||" else "||", self._term(_neg(inner["l"]), subst), self._term(_neg(inner["r"]), subst))
                # !(a == b) is a != b for every type; !(a < b) is a >= b only for totally ordered (integer) operands
                inner = strip(n["e"])
                if inner.get("k") == "Binary" and not inner.get("m"):
                    iop = inner.get("op")
                    neg = {"==": "!=", "!=": "==", "<": ">=", ">=": "<", ">": "<=", "<=": ">"}
                    lt_ = base_ty(ty_of(inner["l"]))
                    if iop in ("==", "!=") or (iop in neg and lt_ in INT_TYS):
                        return ("op", neg[iop], self.term(inner["l"], subst), self.term(inner["r"], subst))
            t = self.term(n["e"], subst)
            if op == "*":
                return t
            if op == "-":
                if ty in INT_TYS or is_num(t):
                    return lin_scale(t, -1)
                return ("neg", t)
            return ("not", t)
        if k == "Cast":
            t = self.term(n["e"], subst)
            src = base_ty(ty_of(n["e"]))
            if (src in INT_TYS and ty in INT_TYS) or is_num(t):
                return t
            if src in INT_TYS and ty in FLOAT_TYS:
                return ("tofloat", t)
            return ("cast", ty, t)
        if k == "Block":
            if not n.get("stmts") and n.get("expr") is not None:
                return self.term(n["expr"], subst)
            if str(n.get("ty")) == "!":
                return ("diverge", n["id"])          # a block that never produces a value (panic!, return, ..)
            if n.get("expr") is not None and not n.get("m") and str(n.get("ty")) not in ("()", "!"):
                # a block expression `{ let a = ..; ..; value }`: its value is its tail (locals are resolved by the
                # position-sensitive let inlining as anywhere else; side effects of the statements are effects, not values)
                t = self.term(n["expr"], subst)
                if t[0] != "block":
                    return t
            return ("block", n["id"])
        if k == "Tup":
            return ("tup",) + tuple(self.term(x, subst) for x in n["es"])
        if k == "Binary":
            a = self.term(n["l"], subst)
            b = self.term(n["r"], subst)
            op = n["op"]
            lt = base_ty(ty_of(n["l"]))
            if lt in INT_TYS and op in ("+", "-", "*") and not n.get("fn"):
                if op == "+":
                    return lin_add(a, b)
                if op == "-":
                    return lin_sub(a, b)
                return lin_mul(a, b)
            if is_num(a) and is_num(b) and op in ("+", "-", "*", "/") and lt in INT_TYS | FLOAT_TYS:
                if op == "+":
                    return ("num", a[1] + b[1])
                if op == "-":
                    return ("num", a[1] - b[1])
                if op == "*":
                    return ("num", a[1] * b[1])
                if op == "/" and b[1] != 0 and lt in FLOAT_TYS:
                    return ("num", a[1] / b[1])
            return ("op", op, a, b)
        if k == "Index":
            return ("idx", self.term(n["base"], subst), self.term(n["idx"], subst))
        if k == "Def":
            dk = n.get("dk", "")
            if dk.startswith("Const") or dk.startswith("AssocConst"):
                cf = self.pdb.fn(n.get("fn"))
                if cf is not None:
                    cb = strip(cf["body"])
                    if cb.get("k") == "Lit":
                        return Ctx.for_fn(self.pdb, cf).term(cb)
            return ("def", n.get("impl") or n.get("fn") or n.get("dk"))
        if k == "MethodCall":
            return self._call(n, [n["recv"]] + list(n.get("args", [])), subst)
        if k == "Call":
            f = n["f"]
            if f.get("k") == "Def":
                return self._call(f, list(n.get("args", [])), subst, node=n)
            return ("callv", self.term(f, subst)) + tuple(self.term(a, subst) for a in n.get("args", []))
        if k == "Struct":
            return ("struct", n.get("path")) + tuple((f["name"], self.term(f["e"], subst)) for f in n.get("fields", []))
        if k == "If":
            c_, th_ = self.term(n["cond"], subst), self.term(n["then"], subst)
            el_ = self.term(n["else"], subst) if n.get("else") else ("unit",)
            # `if a < b { a } else { b }` on integers is min(a, b) (max likewise), whichever way it is spelled
            if ty in INT_TYS and c_[0] == "op" and c_[1] in ("<", "<=", ">", ">=") and {c_[2], c_[3]} == {th_, el_} and th_ != el_:
                lo_first = c_[1] in ("<", "<=")
                picks_left = th_ == c_[2]
                which = "min" if lo_first == picks_left else "max"
                a_, b_ = sorted([c_[2], c_[3]], key=repr)
                return ("call", "std::cmp::%s" % which, a_, b_)
            if ty == "bool":
                # `if a { b } else { false }` is a && b ; `if a { true } else { b }` is a || b
                if el_ == ("bool", False):
                    return ("op", "&&", c_, th_)
                if th_ == ("bool", True):
                    return ("op", "||", c_, el_)
            return ("ite", c_, th_, el_)
        if k == "Range":
            return ("range", self.term(n["lo"], subst), self.term(n["hi"], subst), bool(n.get("incl")))
        if k == "Try":
            inner = n["e"]
            s = self._ok_payload(inner, subst)
            if s is not None:
                return s
            return ("try", self.term(inner, subst))
        if k == "Match":
            # `match X.f() { Ok(d) => d, Err(_) => <diverges> }`  ==  the Ok payload of the call
            arms = n.get("arms", [])
            if len(arms) == 2:
                from .guards import diverges
                for a, b in ((arms[0], arms[1]), (arms[1], arms[0])):
                    pa = a["pat"]
                    inner = None
                    if pa.get("k") == "TupleStruct" and str(pa.get("path", "")).endswith("Ok") and len(pa.get("ps", [])) == 1:
                        inner = pa["ps"][0]
                    if pa.get("k") == "Struct" and str(pa.get("path", "")).endswith("Ok") and len(pa.get("fields", [])) == 1:
                        inner = pa["fields"][0]["pat"]
                    if inner is not None and inner.get("k") == "Bind" and diverges(b["body"]):
                        body = strip(a["body"])
                        if body.get("k") == "Local" and body["v"] == inner["v"]:
                            s_ = self._ok_payload(n["scrut"], subst)
                            if s_ is not None:
                                return s_
            # a match with exactly one arm that can complete has that arm's value
            from .guards import diverges as _dv
            live = [a for a in arms if not _dv(a["body"])]
            if len(live) == 1 and live[0].get("guard") is None and len(arms) >= 2:
                return self.term(live[0]["body"], subst)
            return ("expr", k, n.get("id"))
        if k == "Closure":
            return ("closure", n["id"])
        if k == "Macro":
            return ("macro", n.get("name"), n["id"])
        return ("expr", k, n.get("id"))

    def _arm_payload(self, b, subst):
        """x bound by the only non-diverging arm `(.., Ok(x), ..) => ..` (or `Ok(x) => ..`) of a match whose scrutinee
        element is a call with a single Ok path (degree()): x is that Ok payload."""
        from .guards import diverges
        arm = b.node
        m = arm.get("_p")
        if m is None or m.get("k") != "Match":
            return None
        live = [a for a in m.get("arms", []) if not diverges(a["body"])]
        if len(live) != 1 or live[0] is not arm or arm.get("guard") is not None:
            return None
        pat, scr, path = arm["pat"], strip(m["scrut"]), list(b.proj)
        while path:
            k = pat.get("k")
            if k == "Tuple" and scr.get("k") == "Tup" and isinstance(path[0], int) and path[0] < len(pat["ps"]) and len(pat["ps"]) == len(scr["es"]):
                pat, scr = pat["ps"][path[0]], strip(scr["es"][path[0]])
                path = path[1:]
                continue
            if k == "TupleStruct" and str(pat.get("path", "")).endswith("Ok") and len(pat.get("ps", [])) == 1 and path[0] == 0:
                if pat["ps"][0].get("k") == "Bind" and len(path) == 1:
                    return self._ok_payload(scr, subst)
                return None
            if k == "Struct" and str(pat.get("path", "")).endswith("Ok") and len(pat.get("fields", [])) == 1:
                if pat["fields"][0]["pat"].get("k") == "Bind" and len(path) == 1:
                    return self._ok_payload(scr, subst)
                return None
            return None
        return None

    def _let_inlinable(self, b, t, use):
        """An immutable `let x = e` may be replaced by e's term at a use only if nothing e reads can change
        between the let and that use (textually between them, or in a loop around the use that excludes the let)."""
        from .guards import term_roots, _pos, _affected_term
        roots = term_roots(t)
        if not roots:
            return True
        lp, up = _pos(b.node), _pos(use)
        use_loops = [a for a in _anc(use) if a.get("k") in ("For", "While", "Loop")]
        let_anc = set(id(a) for a in _anc(b.node))
        outer_loops = [L for L in use_loops if id(L) not in let_anc]
        for root in roots:
            for kind, m in self.mutations.get(root, []):
                if not _affected_term(t, root, kind):
                    continue
                if self.disjoint_write([t], root, m):
                    continue
                from .guards import _in_exiting_branch
                if _in_exiting_branch(m, use):
                    continue
                mp = _pos(m)
                own_rhs = any(a is m for a in _anc(use)) and m.get("k") in ("Assign", "AssignOp")
                if lp < mp < up and not own_rhs:   # (a read inside the assignment's own right-hand side precedes the write)
                    return False
                if outer_loops:
                    m_anc = set(id(a) for a in _anc(m))
                    if any(id(L) in m_anc for L in outer_loops):
                        return False
        return True

    def disjoint_write(self, ts, root, m):
        """The mutation m is an element write `B[I] (op)= ..` and every element read of `root` in the terms ts goes
        through the same base B with an index that provably differs from I (one component strictly smaller or larger,
        from the facts at m: loop ranges and guards).  Then the write cannot change what ts read."""
        if m.get("k") not in ("Assign", "AssignOp"):
            return False
        key = (id(m), repr(ts))
        if key in self._dw_busy:
            return False
        self._dw_busy.add(key)
        try:
            l = m["l"]
            while l.get("k") in ("AddrOf",) or (l.get("k") == "Unary" and l.get("op") == "*") or \
                    (l.get("k") == "Block" and not l.get("stmts") and l.get("expr") is not None):
                l = l["e"] if l.get("k") != "Block" else l["expr"]
            if l.get("k") != "Index":
                return False
            wb, wi = self.term(l["base"]), self.term(l["idx"])
            from .guards import facts, prove_lt, term_roots
            reads = []

            def collect(x):
                if not isinstance(x, tuple):
                    return
                if x and x[0] == "idx" and root in term_roots(x[1]):
                    reads.append(x)
                for y in x:
                    if isinstance(y, tuple):
                        collect(y)
            for t in ts:
                collect(t)
                if t == root:
                    return False
            if not reads:
                return False
            fs = None
            for r in reads:
                if r[1] != wb:
                    return False
                ra = r[2][1:] if r[2][0] == "tup" else (r[2],)
                wa = wi[1:] if wi[0] == "tup" else (wi,)
                if len(ra) != len(wa):
                    return False
                if fs is None:
                    fs = facts(self, m)
                if not any(prove_lt(a, b, fs) or prove_lt(b, a, fs) for a, b in zip(ra, wa)):
                    return False
            # whole-object reads of root (not through an element read) are not covered
            return True
        finally:
            self._dw_busy.discard(key)

    def def_term(self, var):
        """Term of the initialiser of a let-bound local (evaluated at the let), or None."""
        if var and var[0] == "var":
            b = self.binds.get(var[1])
            if b is not None and b.kind == "let" and b.init is not None and not b.proj:
                return self.term(b.init)
        return None

    def _ok_payload(self, call, subst):
        """`x.degree()?` / `.unwrap()`: if the callee has a single Ok(..) path, return its payload term."""
        call = strip(call)
        if call.get("k") not in ("MethodCall", "Call"):
            return None
        path = call.get("impl") or call.get("fn") if call.get("k") == "MethodCall" else None
        if call.get("k") == "Call" and call["f"].get("k") == "Def":
            path = call["f"].get("impl") or call["f"].get("fn")
        fn = self.pdb.fn(path) if path else None
        if fn is None:
            return None
        s = ok_summary(self.pdb, fn)
        if s is None:
            return None
        args = [call["recv"]] + list(call.get("args", [])) if call.get("k") == "MethodCall" else list(call.get("args", []))
        sub = {("param", i): self.term(a, subst) for i, a in enumerate(args)}
        return Ctx.for_fn(self.pdb, fn).term(s, sub)

    def _call(self, n, args, subst, node=None):
        path = n.get("impl") or n.get("fn")
        generic = n.get("fn")
        name = n.get("name")
        # clone is the value
        if generic in CLONE_FNS and len(args) == 1:
            return self.term(args[0], subst)
        if generic in ("std::convert::Into::into", "std::convert::From::from") and len(args) == 1:
            return ("call", path, self.term(args[0], subst))
        # unwrap / expect of a single-Ok-path callee
        if path in ("std::result::Result<T, E>::unwrap", "std::result::Result<T, E>::expect") and args:
            s = self._ok_payload(args[0], subst)
            if s is not None:
                return s
        # lengths
        if path in LEN_IMPLS or (generic in LEN_IMPLS):
            return ("len", self.term(args[0], subst))
        # local trivial getters / pure single-expression fns are inlined
        fn = self.pdb.fn(path) if path else None
        if fn is not None and is_simple_fn(self.pdb, fn):
            sub = {("param", i): self.term(a, subst) for i, a in enumerate(args)}
            return Ctx.for_fn(self.pdb, fn).term(strip(fn["body"]), sub)
        return ("call", path) + tuple(self.term(a, subst) for a in args)

    def resolve_vars(self, t, at, depth=0):
        """Replace ('var', v) leaves by the term of v's initialiser when v (a `let mut`) is provably not
        modified between its `let` and node `at` (no mutation positioned before `at`, none in a loop shared
        with `at`)."""
        if not isinstance(t, tuple) or depth > 6:
            return t
        if t and t[0] == "var" and len(t) == 2:
            b = self.binds.get(t[1])
            if b is None or b.kind != "let" or b.init is None or b.proj:
                return t
            from .guards import _pos, _in_common_loop
            for kind, m in self.mutations.get(t, []):
                if _pos(m) < _pos(at) or _in_common_loop(m, at) or m is at:
                    # a call that takes `&mut v` *at* the node itself is fine for reading v before it
                    if m is at or any(a is at for a in _anc(m)):
                        continue
                    return t
            return self.resolve_vars(self.term(b.init), at, depth + 1)
        from .common import subst_term
        subs = {}
        _collect_vars(t, subs)
        if not subs:
            return t
        sub = {}
        for v in subs:
            r = self.resolve_vars(v, at, depth + 1)
            if r != v:
                sub[v] = r
        return subst_term(t, sub) if sub else t

    _ctxs = {}

    @classmethod
    def for_fn(cls, pdb, fn):
        key = (id(pdb), fn["path"])
        c = cls._ctxs.get(key)
        if c is None:
            c = cls(pdb, fn)
            cls._ctxs[key] = c
        return c


def _anc(n):
    p = n.get("_p")
    while p is not None:
        yield p
        p = p.get("_p")


def _collect_vars(t, acc):
    if isinstance(t, tuple):
        if t and t[0] == "var" and len(t) == 2:
            acc[t] = True
        else:
            for x in t:
                if isinstance(x, tuple):
                    _collect_vars(x, acc)


def project(t, path):
    for p in path:
        if t[0] == "tup" and isinstance(p, int) and p + 1 < len(t) + 0:
            t = t[1 + p]
        elif t[0] == "tup" and isinstance(p, str) and p.isdigit() and int(p) + 1 < len(t):
            t = t[1 + int(p)]
        elif t[0] == "struct":
            hit = [ft for (fname, ft) in t[2:] if fname == p]
            t = hit[0] if hit else ("field", t, p)
        elif t[0] == "range" and len(t) == 4 and p in ("start", "end") and not (p == "end" and t[3]):
            t = t[1] if p == "start" else t[2]        # `(lo..hi).start` / `.end` (the fields of a half-open Range)
        else:
            t = ("field", t, str(p))
    return t


def deref(n):
    while n.get("k") in ("AddrOf",) or (n.get("k") == "Unary" and n.get("op") == "*") or \
            (n.get("k") == "Block" and not n.get("stmts") and n.get("expr") is not None):
        n = n["e"] if n.get("k") != "Block" else n["expr"]
    return n


def lvalue_root(n):
    """Local id at the root of an lvalue expression (through fields, indexes, derefs), else None."""
    while True:
        k = n.get("k")
        if k == "Local":
            return n["v"]
        if k == "Field":
            n = n["e"]
        elif k == "Index":
            n = n["base"]
        elif k == "Unary" and n.get("op") == "*":
            n = n["e"]
        elif k == "AddrOf":
            n = n["e"]
        elif k == "MethodCall" and n.get("name") in ("borrow_mut", "as_mut", "deref_mut"):
            n = n["recv"]
        else:
            return None


def lvalue_path(n):
    """(fields from the root down to the first index, has_index) of an lvalue expression."""
    chain = []
    while True:
        k = n.get("k")
        if k == "Local":
            break
        if k == "Field":
            chain.append(n["name"])
            n = n["e"]
        elif k == "Index":
            chain.append(None)
            n = n["base"]
        elif k in ("AddrOf",) or (k == "Unary" and n.get("op") == "*"):
            n = n["e"]
        elif k == "MethodCall":
            chain.append(None)
            n = n["recv"]
        elif k == "Block" and not n.get("stmts") and n.get("expr") is not None:
            n = n["expr"]
        else:
            break
    chain.reverse()
    path = []
    has_index = False
    for c in chain:
        if c is None:
            has_index = True
            break
        path.append(c)
    return tuple(path), has_index


_simple_cache = {}


def default_overridden(pdb, fn):
    """fn is a provided (default) method of a local trait and some local impl of that trait overrides it: a call through the
    trait may run the override, so the default body says nothing about it."""
    if fn.get("impl_self") or fn.get("kind") != "AssocFn" or "::" not in fn["path"]:
        return False
    tr, nm = fn["path"].rsplit("::", 1)
    return any(f_.get("impl_trait") == tr and (f_.get("name") or f_["path"].rsplit("::", 1)[-1]) == nm for f_ in pdb.local_fns())


def is_simple_fn(pdb, fn, depth=0):
    """A local fn whose body is one side-effect-free expression over its parameters (a getter)."""
    key = (id(pdb), fn["path"])
    if key in _simple_cache:
        return _simple_cache[key]
    _simple_cache[key] = False
    if default_overridden(pdb, fn):
        return False
    body = strip(fn["body"])
    ok = depth < 4 and fn["kind"] in ("Fn", "AssocFn") and _simple_expr(pdb, body, depth)
    _simple_cache[key] = ok
    return ok


def _simple_expr(pdb, n, depth):
    k = n.get("k")
    if k in ("Lit", "Local"):
        return True
    if k in ("Field", "AddrOf", "Cast"):
        return _simple_expr(pdb, n["e"], depth)
    if k == "Unary":
        return _simple_expr(pdb, n["e"], depth)
    if k == "Tup":
        return all(_simple_expr(pdb, x, depth) for x in n["es"])
    if k == "Binary":
        # built-in arithmetic, or an (overloaded, by convention pure) equality test: `*self == Self::zero()`
        pure = not n.get("fn") or (n.get("op") in ("==", "!=") and str(n.get("fn", "")).startswith("std::cmp::PartialEq::"))
        return pure and _simple_expr(pdb, n["l"], depth) and _simple_expr(pdb, n["r"], depth)
    if k == "Call" and not n.get("args") and n.get("f", {}).get("k") == "Def" and str(n["f"].get("fn", "")) in ("traits::Zero::zero", "traits::One::one"):
        return True          # the additive / multiplicative identity of the element type
    if k == "MethodCall":
        path = n.get("impl") or n.get("fn")
        if path in LEN_IMPLS or n.get("fn") in LEN_IMPLS:
            return _simple_expr(pdb, n["recv"], depth)
        f = pdb.fn(path)
        if f is not None and not n.get("args"):
            return is_simple_fn(pdb, f, depth + 1) and _simple_expr(pdb, n["recv"], depth)
        return False
    if k == "Block" and not n.get("stmts") and n.get("expr") is not None:
        return _simple_expr(pdb, n["expr"], depth)
    return False


_ok_cache = {}


def ok_summary(pdb, fn):
    """For `fn f(..) -> Result<..>` whose body is `if c { Err(..) } else { Ok(X) }` (either order),
    return the node X; else None."""
    key = (id(pdb), fn["path"])
    if key in _ok_cache:
        return _ok_cache[key]
    res = None
    body = strip(fn["body"])
    if body.get("k") == "If" and body.get("else") is not None and fn.get("output", "").startswith("std::result::Result"):
        payloads = []
        for br in (body["then"], body["else"]):
            e = strip(br)
            if e.get("k") == "Call" and e["f"].get("k") == "Def":
                p = e["f"].get("fn", "")
                if p.endswith("Ok") and len(e["args"]) == 1:
                    payloads.append(e["args"][0])
        if len(payloads) == 1:
            res = payloads[0]
    _ok_cache[key] = res
    return res


def err_condition(pdb, fn):
    """For `fn f(..) -> Result` whose body is `if c { Err(..) } else { Ok(..) }`: the node c (None otherwise; the
    reversed form `if c { Ok } else { Err }` is not summarised)."""
    body = strip(fn["body"])
    if body.get("k") == "If" and body.get("else") is not None and str(fn.get("output", "")).startswith("std::result::Result"):
        th, el = strip(body["then"]), strip(body["else"])
        def is_(e, nm):
            return e.get("k") == "Call" and e["f"].get("k") == "Def" and str(e["f"].get("fn", "")).endswith(nm)
        if is_(th, "Err") and is_(el, "Ok"):
            return body["cond"]
    return None


def show(t, ctx=None):
    """Human-readable rendering of a term (for messages)."""
    k = t[0]
    if k == "num":
        return str(t[1])
    if k == "param":
        if ctx is not None:
            ps = ctx.fn.get("params", [])
            if t[1] < len(ps) and ps[t[1]].get("name"):
                return ps[t[1]]["name"]
        return "$%d" % t[1]
    if k == "var":
        if ctx is not None and t[1] in ctx.binds:
            return ctx.binds[t[1]].name
        return "v%d" % t[1]
    if k == "field":
        return "%s.%s" % (show(t[1], ctx), t[2])
    if k == "len":
        return "len(%s)" % show(t[1], ctx)
    if k == "idx":
        return "%s[%s]" % (show(t[1], ctx), show(t[2], ctx))
    if k == "tup":
        return "(" + ", ".join(show(x, ctx) for x in t[1:]) + ")"
    if k == "lin":
        parts = []
        for a, c in t[2]:
            if c == 1:
                parts.append("+" + show(a, ctx))
            elif c == -1:
                parts.append("-" + show(a, ctx))
            else:
                parts.append("%+d*%s" % (c, show(a, ctx)) if c.denominator == 1 else "%s*%s" % (c, show(a, ctx)))
        if t[1] != 0:
            parts.append("%+d" % t[1] if t[1].denominator == 1 else "+%s" % t[1])
        s = "".join(parts)
        return s[1:] if s.startswith("+") else s
    if k == "mul":
        return "*".join(show(x, ctx) for x in t[1:])
    if k == "op":
        return "(%s %s %s)" % (show(t[2], ctx), t[1], show(t[3], ctx))
    if k == "neg":
        return "-%s" % show(t[1], ctx)
    if k == "not":
        return "!%s" % show(t[1], ctx)
    if k == "call":
        return "%s(%s)" % (str(t[1]).split("::")[-1], ", ".join(show(x, ctx) for x in t[2:]))
    if k == "def":
        return str(t[1])
    if k == "tofloat":
        return "float(%s)" % show(t[1], ctx)
    return repr(t)
