"""C14 — complex functions: only the compositional skeleton is decided statically (primitive closed forms,
quotient / reciprocal / inverse-of-reciprocal pairings, provenance of the principal branch from atan2)."""
from fractions import Fraction

from .pdb import strip, walk, loc
from .terms import Ctx
from .common import P, F
from .algebra import SymExec, NotStraight, sign_norm, show_tree, comm

LEVEL = "other"
CF = "complex::Complex<f64>"
DIV = "<complex::Complex<T> as std::ops::Div>::div"
SELF = ("in", P(0))
X, Y = ("in", F(P(0), "real")), ("in", F(P(0), "imag"))


def fn_(name, *a):
    return ("fn", name) + a


def mul(a, b):
    return ("op", "*", a, b)


def add(a, b):
    return ("op", "+", a, b)


def num(v):
    return ("num", Fraction(v))


def cc(name, *a):
    return ("ccall", "%s::%s" % (CF, name)) + a


ONE = ("cplx", num(1), num(0))


def unfold(t):
    """arg(z) and atan2(Im z, Re z) are the same thing (principal/arg decides that): compare with arg() unfolded."""
    if not isinstance(t, tuple):
        return t
    if len(t) == 3 and t[0] == "ccall" and t[1] == "%s::arg" % CF and t[2] == SELF:
        return fn_("atan2", Y, X)
    if len(t) == 4 and t[0] == "ccall" and str(t[1]).endswith("::polar"):
        # polar(r, th) is (r cos th, r sin th) (primitive-forms/polar decides that)
        r_, th_ = unfold(t[2]), unfold(t[3])
        return ("cplx", mul(r_, fn_("cos", th_)), mul(r_, fn_("sin", th_)))
    if len(t) == 3 and t[0] == "ccall" and t[1] in ("%s::tan" % CF, "%s::tanh" % CF):
        # tan z is sin z / cos z, tanh z is sinh z / cosh z (quotients/* decide that)
        z_ = unfold(t[2])
        a_, b_ = ("sin", "cos") if t[1].endswith("::tan") else ("sinh", "cosh")
        return ("cop", DIV, cc(a_, z_), cc(b_, z_))
    return tuple(unfold(x) if isinstance(x, tuple) else x for x in t)


INVERSES = (("asin", "sin", False), ("acos", "cos", False), ("atan", "tan", False), ("asinh", "sinh", False), ("acosh", "cosh", False), ("atanh", "tanh", False),
            ("acsc", "sin", True), ("asec", "cos", True), ("acot", "tan", True), ("acsch", "sinh", True), ("asech", "cosh", True), ("acoth", "tanh", True))


def _reference_forms(name):
    """The standard principal-value definitions as trees in SymExec's language (z = ('in', ('param', 0)))."""
    Z = ("in", ("param", 0))
    I_ = ("cplx", num(0), num(1))
    one = ("cplx", num(1), num(0))
    HP = ("const", "std::f64::consts::FRAC_PI_2")

    def o(sym, a, b):
        return ("op", sym, a, b)

    def sq(a):
        return ("ccall", "sqrt", a)

    def ln(a):
        return ("ccall", "ln", a)
    zz = o("*", Z, Z)
    iz = o("*", I_, Z)
    u = o("+", iz, sq(o("-", one, zz)))
    if name == "asin":
        return [o("*", ("neg", I_), ln(u))]
    if name == "acos":
        return [o("+", HP, o("*", I_, ln(u))), o("*", ("neg", I_), ln(o("+", Z, o("*", I_, sq(o("-", one, zz))))))]
    if name == "atan":
        return [o("*", o("*", I_, num("0.5")), o("-", ln(o("-", one, iz)), ln(o("+", one, iz))))]
    if name == "asinh":
        return [ln(o("+", Z, sq(o("+", zz, one))))]
    if name == "acosh":
        return [ln(o("+", Z, o("*", sq(o("-", Z, one)), sq(o("+", Z, one)))))]
    if name == "atanh":
        return [o("*", num("0.5"), o("-", ln(o("+", one, Z)), ln(o("-", one, Z))))]
    return []


def rule_inverse_functions(rep, pdb):
    """right-inverse identity and branch structure of the twelve inverse functions, by exact algebra (rules/cxalg.py)."""
    from . import cxalg
    r_id = ("f(f^-1(z)) = z (for the inverses of the reciprocal functions: f(f^-1(z)) = 1/z) holds as an exact identity: the body is "
            "normalised to c0 + sum c_j ln(u_j) over Q[z,i,s_k]/(i^2+1, s_k^2-r_k) and the forward function is applied through its "
            "exponential definition using only exp(ln u) = u, exp(i k pi/2) = i^k and sqrt(r)^2 = r")
    r_br = ("the logarithmic form of the inverse function is the standard principal-value definition (same coefficients, same logarithm "
            "arguments and the same square-root radicands, all compared as polynomials): a different grouping of square roots or "
            "logarithms moves the branch cuts")
    memo = {}

    def tree_of(path):
        if path not in memo:
            fn = pdb.fn(path)
            memo[path] = None
            if fn is not None and len(fn.get("params", [])) == 1:
                try:
                    memo[path] = SymExec(pdb, fn).run()
                except NotStraight:
                    memo[path] = None
        return memo[path]
    n = 0
    for name, fwd, recip in INVERSES:
        path = "%s::%s" % (CF, name)
        fn = pdb.fn(path)
        if fn is None:
            rep.missing("right-inverse/%s" % name, r_id, "function %s not found" % path)
            continue
        try:
            t = SymExec(pdb, fn).run()
            R = cxalg.Ring()
            # for the inverse of a reciprocal function the argument is written 1/w, so that g^-1(1/z) sees the polynomial w
            z = cxalg.LogLin(R, (cxalg.p_const(1), cxalg.p_var("z")) if recip else (cxalg.p_var("z"), cxalg.p_const(1)))
            T = cxalg.evaluate(t, R, z, tree_of)
            w = cxalg.forward(R, fwd, T)
            want = R.e_div(R.e_const(1), z.c0) if recip else z.c0
            ok = bool(w[1]) and R.e_eq(w, want)
            det = "%s(z) = %s;  %s(that) %s %s" % (name, cxalg.show_loglin(R, T), fwd, "==" if ok else "!=", "1/z" if recip else "z")
        except (NotStraight, cxalg.NotAlgebraic) as ex:
            rep.missing("right-inverse/%s" % name, r_id, "the body of %s is not a logarithmic form the algebra can normalise (%s)" % (path, ex), where=loc(fn["body"]))
            continue
        rep.add("right-inverse/%s" % name, r_id, ok, fn["body"], det, where=loc(fn["body"]))
        n += 1
        if recip:
            continue
        same = False
        for ref in _reference_forms(name):
            R2 = cxalg.Ring()
            z2 = cxalg.LogLin(R2, (cxalg.p_var("z"), cxalg.p_const(1)))
            T2 = cxalg.evaluate(ref, R2, z2, None)
            if cxalg.same_loglin(R, T, R2, T2):
                same = True
                break
        rep.add("inverse-branch/%s" % name, r_br, same, fn["body"], "%s(z) = %s" % (name, cxalg.show_loglin(R, T)), where=loc(fn["body"]))
    return n


def run(rep, pdb, tier):
    def body_of(name):
        fn = pdb.fn("%s::%s" % (CF, name))
        if fn is None:
            return None, None
        try:
            return fn, SymExec(pdb, fn).run()
        except NotStraight as e:
            return fn, ("error", str(e))

    def check(group, name, want, rule):
        fn, got = body_of(name)
        key = "%s/%s" % (group, name)
        if fn is None:
            rep.missing(key, rule, "function %s::%s not found" % (CF, name))
            return
        ok = got is not None and got[0] != "error" and sign_norm(unfold(got)) == sign_norm(unfold(want))
        rep.add(key, rule, ok, fn["body"], "extracted: %s" % ((show_tree(got) if got is not None and got[0] != "error" else repr(got)),), where=loc(fn["body"]))

    r1 = "the body equals the closed form in real functions of (x, y), modulo commutativity of + and * and sign placement"
    check("primitive-forms", "sin", ("cplx", mul(fn_("sin", X), fn_("cosh", Y)), mul(fn_("cos", X), fn_("sinh", Y))), r1)
    check("primitive-forms", "cos", ("cplx", mul(fn_("cos", X), fn_("cosh", Y)), ("neg", mul(fn_("sin", X), fn_("sinh", Y)))), r1)
    check("primitive-forms", "sinh", ("cplx", mul(fn_("sinh", X), fn_("cos", Y)), mul(fn_("cosh", X), fn_("sin", Y))), r1)
    check("primitive-forms", "cosh", ("cplx", mul(fn_("cosh", X), fn_("cos", Y)), mul(fn_("sinh", X), fn_("sin", Y))), r1)
    check("primitive-forms", "exp", ("cplx", mul(fn_("exp", X), fn_("cos", Y)), mul(fn_("exp", X), fn_("sin", Y))), r1)
    R_, TH = ("in", P(0)), ("in", P(1))
    check("primitive-forms", "polar", ("cplx", mul(R_, fn_("cos", TH)), mul(R_, fn_("sin", TH))), r1)
    # reduces to the real function on the real axis: substitute y := 0 with cosh 0 = 1, sinh 0 = 0, cos 0 = 1, sin 0 = 0
    r2 = "numerator / denominator roles"
    check("quotients", "tan", ("cop", DIV, cc("sin", SELF), cc("cos", SELF)), r2)
    check("quotients", "tanh", ("cop", DIV, cc("sinh", SELF), cc("cosh", SELF)), r2)
    check("quotients", "log", ("cop", DIV, cc("ln", SELF), cc("ln", ("in", P(1)))), "log_b z = ln z / ln b")
    r3 = "the reciprocal function is one / g(self) with g its partner"
    for name, g in (("sec", "cos"), ("csc", "sin"), ("cot", "tan"), ("sech", "cosh"), ("csch", "sinh"), ("coth", "tanh")):
        check("reciprocals", name, ("cop", DIV, ONE, cc(g, SELF)), r3)
    r4 = "the inverse of a reciprocal function is g^-1(one / self) with the partner inverse"
    for name, g in (("asec", "acos"), ("acsc", "asin"), ("acot", "atan"), ("asech", "acosh"), ("acsch", "asinh"), ("acoth", "atanh")):
        check("inverse-of-reciprocal", name, cc(g, ("cop", DIV, ONE, SELF)), r4)
    r5 = "principal branches are inherited from atan2's range (-pi, pi]: ln = (ln|z|, arg z), sqrt = sqrt|z| (cos(arg/2), sin(arg/2)), arg = atan2(imag, real)"
    check("principal", "ln", ("cplx", fn_("ln", cc("abs", SELF)), cc("arg", SELF)), r5)
    half = mul(num("0.5"), cc("arg", SELF))
    sa = fn_("sqrt", cc("abs", SELF))
    check("principal", "sqrt", ("cplx", mul(sa, fn_("cos", half)), mul(sa, fn_("sin", half))), r5)
    check("principal", "arg", fn_("atan2", Y, X), r5)
    r6 = "z^w = exp(w ln z) expanded: modulus r2^(Re w / 2) * exp(-Im w * theta), angle Re w * theta + Im w/2 * ln r2 with r2 = abs_sqr, theta = arg"
    WR, WI = ("in", F(P(1), "real")), ("in", F(P(1), "imag"))
    r2_ = ("ccall", "complex::Complex<T>::abs_sqr", SELF)
    th = cc("arg", SELF)
    modu = mul(fn_("powf", r2_, mul(num("0.5"), WR)), fn_("exp", mul(("neg", WI), th)))
    ang = add(mul(WR, th), mul(mul(num("0.5"), WI), fn_("ln", r2_)))
    check("pow", "pow", ("cplx", mul(modu, fn_("cos", ang)), mul(modu, fn_("sin", ang))), r6)
    XR = ("in", P(1))
    a_ = fn_("powf", r2_, mul(num("0.5"), XR))
    b_ = mul(XR, th)
    check("pow", "powf", ("cplx", mul(a_, fn_("cos", b_)), mul(a_, fn_("sin", b_))), "powf is the Im w = 0 instance of pow")
    n_inv = rule_inverse_functions(rep, pdb)
    rep.floor("right-inverse/", 12)
    rep.floor("inverse-branch/", 6)
    rep.floor("primitive-forms/", 6)
    rep.floor("quotients/", 3)
    rep.floor("reciprocals/", 6)
    rep.floor("inverse-of-reciprocal/", 6)
    rep.floor("principal/", 3)
    rep.floor("pow/", 2)
    rep.assumptions += ["decided: the compositional skeleton (primitive closed forms, quotient / reciprocal / inverse-of-reciprocal pairings, provenance of the principal branch of ln and sqrt from atan2, the expansion of z^w) and, for the twelve inverse functions, the right-inverse identity f(f^-1(z)) = z as an exact identity in Q[z,i,s_k]/(i^2+1, s_k^2-r_k) (valid for every branch of the square roots and logarithms; exp(ln u) = u and sqrt(r)^2 = r are the only facts used), plus the branch structure: the logarithmic form equals the standard principal-value definition (Abramowitz & Stegun 4.4.26-31, 4.6.20-25) with logarithm and square-root arguments compared as polynomials",
                        "trusted: the forward functions are their exponential definitions (primitive-forms/* decide that the bodies are the matching closed forms in real functions); ln and sqrt are the principal ones (principal/* decide their provenance from atan2)",
                        "NOT decided (not applicable to static analysis): agreement with the defining series in floating point, rounding near branch points, the numerical range of Re asin / Re acos as such (it follows from the standard logarithmic form, which is what is compared)",
                        "an implementation through a different but equivalent closed form would be reported as a missing anchor (accepted for these textbook definitions)"]
    return {}
