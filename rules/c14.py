"""C14 — complex functions: only the compositional skeleton is decided statically (primitive closed forms,
quotient / reciprocal / inverse-of-reciprocal pairings, provenance of the principal branch from atan2)."""
from fractions import Fraction

from .pdb import strip, walk, loc
from .terms import Ctx
from .common import P, F
from .algebra import SymExec, NotStraight, sign_norm, show_tree, comm

LEVEL = "other"
CF = "complex::Complex<f64>"
DIV = "<complex::Complex<T> as std::ops::Div>::div"
SELF = ("in", P(0))
X, Y = ("in", F(P(0), "real")), ("in", F(P(0), "imag"))


def fn_(name, *a):
    return ("fn", name) + a


def mul(a, b):
    return ("op", "*", a, b)


def add(a, b):
    return ("op", "+", a, b)


def num(v):
    return ("num", Fraction(v))


def cc(name, *a):
    return ("ccall", "%s::%s" % (CF, name)) + a


ONE = ("cplx", num(1), num(0))


def unfold(t):
    """arg(z) and atan2(Im z, Re z) are the same thing (principal/arg decides that): compare with arg() unfolded."""
    if not isinstance(t, tuple):
        return t
    if len(t) == 3 and t[0] == "ccall" and t[1] == "%s::arg" % CF and t[2] == SELF:
        return fn_("atan2", Y, X)
    if len(t) == 4 and t[0] == "ccall" and str(t[1]).endswith("::polar"):
        # polar(r, th) is (r cos th, r sin th) (primitive-forms/polar decides that)
        r_, th_ = unfold(t[2]), unfold(t[3])
        return ("cplx", mul(r_, fn_("cos", th_)), mul(r_, fn_("sin", th_)))
    if len(t) == 3 and t[0] == "ccall" and t[1] in ("%s::tan" % CF, "%s::tanh" % CF):
        # tan z is sin z / cos z, tanh z is sinh z / cosh z (quotients/* decide that)
        z_ = unfold(t[2])
        a_, b_ = ("sin", "cos") if t[1].endswith("::tan") else ("sinh", "cosh")
        return ("cop", DIV, cc(a_, z_), cc(b_, z_))
    return tuple(unfold(x) if isinstance(x, tuple) else x for x in t)


def run(rep, pdb, tier):
    def body_of(name):
        fn = pdb.fn("%s::%s" % (CF, name))
        if fn is None:
            return None, None
        try:
            return fn, SymExec(pdb, fn).run()
        except NotStraight as e:
            return fn, ("error", str(e))

    def check(group, name, want, rule):
        fn, got = body_of(name)
        key = "%s/%s" % (group, name)
        if fn is None:
            rep.missing(key, rule, "function %s::%s not found" % (CF, name))
            return
        ok = got is not None and got[0] != "error" and sign_norm(unfold(got)) == sign_norm(unfold(want))
        rep.add(key, rule, ok, fn["body"], "extracted: %s" % ((show_tree(got) if got is not None and got[0] != "error" else repr(got)),), where=loc(fn["body"]))

    r1 = "the body equals the closed form in real functions of (x, y), modulo commutativity of + and * and sign placement"
    check("primitive-forms", "sin", ("cplx", mul(fn_("sin", X), fn_("cosh", Y)), mul(fn_("cos", X), fn_("sinh", Y))), r1)
    check("primitive-forms", "cos", ("cplx", mul(fn_("cos", X), fn_("cosh", Y)), ("neg", mul(fn_("sin", X), fn_("sinh", Y)))), r1)
    check("primitive-forms", "sinh", ("cplx", mul(fn_("sinh", X), fn_("cos", Y)), mul(fn_("cosh", X), fn_("sin", Y))), r1)
    check("primitive-forms", "cosh", ("cplx", mul(fn_("cosh", X), fn_("cos", Y)), mul(fn_("sinh", X), fn_("sin", Y))), r1)
    check("primitive-forms", "exp", ("cplx", mul(fn_("exp", X), fn_("cos", Y)), mul(fn_("exp", X), fn_("sin", Y))), r1)
    R_, TH = ("in", P(0)), ("in", P(1))
    check("primitive-forms", "polar", ("cplx", mul(R_, fn_("cos", TH)), mul(R_, fn_("sin", TH))), r1)
    # reduces to the real function on the real axis: substitute y := 0 with cosh 0 = 1, sinh 0 = 0, cos 0 = 1, sin 0 = 0
    r2 = "numerator / denominator roles"
    check("quotients", "tan", ("cop", DIV, cc("sin", SELF), cc("cos", SELF)), r2)
    check("quotients", "tanh", ("cop", DIV, cc("sinh", SELF), cc("cosh", SELF)), r2)
    check("quotients", "log", ("cop", DIV, cc("ln", SELF), cc("ln", ("in", P(1)))), "log_b z = ln z / ln b")
    r3 = "the reciprocal function is one / g(self) with g its partner"
    for name, g in (("sec", "cos"), ("csc", "sin"), ("cot", "tan"), ("sech", "cosh"), ("csch", "sinh"), ("coth", "tanh")):
        check("reciprocals", name, ("cop", DIV, ONE, cc(g, SELF)), r3)
    r4 = "the inverse of a reciprocal function is g^-1(one / self) with the partner inverse"
    for name, g in (("asec", "acos"), ("acsc", "asin"), ("acot", "atan"), ("asech", "acosh"), ("acsch", "asinh"), ("acoth", "atanh")):
        check("inverse-of-reciprocal", name, cc(g, ("cop", DIV, ONE, SELF)), r4)
    r5 = "principal branches are inherited from atan2's range (-pi, pi]: ln = (ln|z|, arg z), sqrt = sqrt|z| (cos(arg/2), sin(arg/2)), arg = atan2(imag, real)"
    check("principal", "ln", ("cplx", fn_("ln", cc("abs", SELF)), cc("arg", SELF)), r5)
    half = mul(num("0.5"), cc("arg", SELF))
    sa = fn_("sqrt", cc("abs", SELF))
    check("principal", "sqrt", ("cplx", mul(sa, fn_("cos", half)), mul(sa, fn_("sin", half))), r5)
    check("principal", "arg", fn_("atan2", Y, X), r5)
    r6 = "z^w = exp(w ln z) expanded: modulus r2^(Re w / 2) * exp(-Im w * theta), angle Re w * theta + Im w/2 * ln r2 with r2 = abs_sqr, theta = arg"
    WR, WI = ("in", F(P(1), "real")), ("in", F(P(1), "imag"))
    r2_ = ("ccall", "complex::Complex<T>::abs_sqr", SELF)
    th = cc("arg", SELF)
    modu = mul(fn_("powf", r2_, mul(num("0.5"), WR)), fn_("exp", mul(("neg", WI), th)))
    ang = add(mul(WR, th), mul(mul(num("0.5"), WI), fn_("ln", r2_)))
    check("pow", "pow", ("cplx", mul(modu, fn_("cos", ang)), mul(modu, fn_("sin", ang))), r6)
    XR = ("in", P(1))
    a_ = fn_("powf", r2_, mul(num("0.5"), XR))
    b_ = mul(XR, th)
    check("pow", "powf", ("cplx", mul(a_, fn_("cos", b_)), mul(a_, fn_("sin", b_))), "powf is the Im w = 0 instance of pow")
    rep.floor("primitive-forms/", 6)
    rep.floor("quotients/", 3)
    rep.floor("reciprocals/", 6)
    rep.floor("inverse-of-reciprocal/", 6)
    rep.floor("principal/", 3)
    rep.floor("pow/", 2)
    rep.assumptions += ["ONLY the compositional skeleton of C14 is decided: primitive closed forms, quotient / reciprocal / inverse-of-reciprocal pairings, provenance of the principal branch of ln and sqrt from atan2, the expansion of z^w",
                        "NOT decided (not applicable to static analysis): agreement with the defining series, right-inverse identities f(f^-1(z)) = z, branch ranges of asin/acos/atan and the hyperbolic twins on both sides of each cut, behaviour next to branch points",
                        "an implementation through a different but equivalent closed form would be reported as a missing anchor (accepted for these textbook definitions)"]
    return {}
