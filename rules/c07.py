"""C07 — sparse products equal dense products; transpose is the adjoint."""
from .pdb import strip, walk, loc
from .terms import Ctx, num, show
from .common import P, F, SIZE, NE, effects, effective_guards, is_zero_term
from .guards import for_range as raw_for_range
from .common import for_range_total as for_range
from .c06 import check_walks, check_transpose, rule_construction, rule_lookup, rule_scale_shortcut, S, ROWS, COLS, NNZ, VAL, RI, CS

LEVEL = "other"


def run(rep, pdb, tier):
    walks = check_walks(rep, pdb, ["multiply", "transpose_multiply", "transpose"], key="csc-walk")
    for name, guard_dim, res_dim, kind in (("multiply", COLS, ROWS, "scatter"), ("transpose_multiply", ROWS, COLS, "gather")):
        fn = pdb.fn("%s::%s" % (S, name))
        if kind == "scatter":
            rule = "multiply: guard cols = len(x); result has length rows; result[row_index[k]] += val[k] * x[j] (x by the walk's column, accumulated positively)"
        else:
            rule = "transpose_multiply: guard rows = len(x); result has length cols; result[j] += val[k] * x[row_index[k]] (result by the walk's column)"
        if fn is None or name not in walks:
            rep.missing("%s/%s" % (kind, name), rule, "function or its walk not found")
            continue
        ctx = Ctx.for_fn(pdb, fn)
        e, j, k = walks[name][0]
        eff = effective_guards(pdb, fn)
        g = NE(guard_dim, SIZE(P(1))) in eff
        rowv = ("idx", RI, k)
        xs = (P(1), F(P(1), "vec"))
        v = e.value
        if kind == "scatter":
            body = e.kind == "upd" and e.op == "+=" and e.index == rowv and v[0] == "op" and v[1] == "*" and \
                {v[2], v[3]} & {("idx", VAL, k)} and any(("idx", x, j) in (v[2], v[3]) for x in xs)
        else:
            body = e.kind == "upd" and e.op == "+=" and e.index == j and v[0] == "op" and v[1] == "*" and \
                {v[2], v[3]} & {("idx", VAL, k)} and any(("idx", x, rowv) in (v[2], v[3]) for x in xs)
        tb = ctx.binds.get(e.target[1]) if e.target[0] == "var" else None
        it = ctx.term(tb.init) if tb is not None and tb.init is not None else None
        # Vector::create(vec![zero; dim])
        rl = None
        if it is not None and it[0] == "call" and str(it[1]).endswith("Vector<T>::create") and it[2][0] == "call" and str(it[2][1]).endswith("from_elem") and is_zero_term(it[2][2]):
            rl = it[2][3]
        if it is not None and it[0] == "call" and str(it[1]).endswith("Vector<T>::new") and is_zero_term(it[3]):
            rl = it[2]
        tail = fn["body"].get("expr")
        ret = tail is not None and ctx.term(tail) == e.target
        ok = bool(g and body and rl == res_dim and ret and len(walks[name]) == 1)
        rep.add("%s/%s" % (kind, name), rule, ok, e.node, "guard=%s body=%s result length=%s returned=%s" % (g, bool(body), show(rl, ctx) if rl else None, ret))
    check_transpose(rep, pdb, walks, "transpose")
    # ---- scale
    fn = pdb.fn("%s::scale" % S)
    rule = "scale multiplies every val[k], k in 0..nonzero, by the argument"
    if fn is None:
        rep.missing("scale", rule, "not found")
    else:
        ctx = Ctx.for_fn(pdb, fn)
        effs = effects(pdb, ctx)
        ok = len(effs) == 1
        if ok:
            e = effs[0]
            r = for_range(ctx, e.loops[0]) if len(e.loops) == 1 else None
            ok = r is not None and e.kind == "upd" and e.op == "*=" and e.target == VAL and e.index == r[0] and e.value == P(1) and r[1:5] == (num(0), NNZ, False, False)
        rep.add("scale", rule, ok, fn["body"], "", where=loc(fn["body"]))
        rule_scale_shortcut(rep, pdb)
    # ---- the inner product used by <y, A x> = <A^T y, x>  (src/vector/functions.rs is an anchor of this property)
    from .common import LEN, NE as _NE
    from .terms import lin_add as _la
    fn = pdb.fn("vector::Vector<T>::dot")
    rule = "dot: size guard, accumulator from zero() (so the empty inner product is 0), += self[i]*w[i] for i over the full range 0..size"
    if fn is None:
        rep.missing("dot", rule, "not found")
    else:
        ctx = Ctx.for_fn(pdb, fn)
        V0, V1 = F(P(0), "vec"), F(P(1), "vec")
        es = [e for e in effects(pdb, ctx) if e.kind == "assignop"]
        ok = len(es) == 1 and _NE(LEN(V0), LEN(V1)) in effective_guards(pdb, fn)
        if ok:
            e = es[0]
            r = for_range(ctx, e.loops[0]) if len(e.loops) == 1 else None
            acc = ctx.binds.get(e.target[1]) if e.target[0] == "var" else None
            ok = r is not None and acc is not None and acc.init is not None and e.op == "+=" and r[1:5] == (num(0), LEN(V0), False, False) and is_zero_term(ctx.term(acc.init)) and \
                e.value in (("op", "*", ("idx", V0, r[0]), ("idx", V1, r[0])), ("op", "*", ("idx", V1, r[0]), ("idx", V0, r[0]))) and ctx.term(fn["body"]["expr"]) == e.target
        rep.add("dot", rule, ok, fn["body"], "", where=loc(fn["body"]))
    # the products walk col_start / row_index / val and scale / transpose are driven by `nonzero`: the invariants that the
    # constructors and insert establish are part of "for every pattern, however built" (same rule instances as C06)
    rule_construction(rep, pdb)
    rule_lookup(rep, pdb)
    rep.floor("lengths/", 3)
    rep.floor("lookup/", 3)
    rep.floor("csc-walk/", 6)
    rep.assumptions += ["numerical equality with the dense product and the adjoint identity follow from the two products being the definitional ones; they are not decided as value statements"]
    return {}
