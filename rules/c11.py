"""C11 — polynomial arithmetic, evaluation, differentiation: definitional formulae."""
from .pdb import strip, walk, loc, ancestors
from .terms import Ctx, num, show, lin_add, lin_sub
from .common import (P, F, LEN, effects, callee_path, call_args, in_macro, forwards_to, is_zero_term, OP_OF_TRAIT, _reaching_values)
from .guards import facts, cond_atoms, norm_cmp
from .common import value_before, rule_empty_safe
from .guards import for_range as raw_for_range
from .common import for_range_total as for_range

LEVEL = "other"
PT = "polynomial::Polynomial<T>"
CO0, CO1 = F(P(0), "coeffs"), F(P(1), "coeffs")
DEG0, DEG1 = lin_add(LEN(CO0), num(-1)), lin_add(LEN(CO1), num(-1))


def empty_returns(pdb, ctx, fn):
    """{which operand is empty (0/1): term returned} for `match X.degree() { Ok(d) => d, Err(_) => return E }`."""
    out = {}
    from .guards import diverges
    for n in walk(fn["body"]):
        if n.get("k") == "Match" and len(n.get("arms", [])) >= 2:
            sc = strip(n["scrut"])
            # `match (a.degree(), b.degree()) { (Ok(x), Ok(y)) => .., _ => return E }`: either operand empty -> E
            if sc.get("k") == "Tup" and all(strip(x).get("k") == "MethodCall" and callee_path(strip(x)) == "%s::degree" % PT for x in sc["es"]):
                live = [a for a in n["arms"] if not diverges(a["body"])]
                dead = [a for a in n["arms"] if diverges(a["body"])]
                okpat = len(live) == 1 and live[0]["pat"].get("k") == "Tuple" and all(
                    q.get("k") in ("TupleStruct", "Struct") and str(q.get("path", "")).endswith("Ok") for q in live[0]["pat"].get("ps", []))
                if okpat and dead:
                    vals = set()
                    for arm in dead:
                        rets = [x for x in walk(arm["body"]) if x.get("k") == "Ret"]
                        vals.add(ctx.term(rets[0]["e"]) if len(rets) == 1 and rets[0].get("e") is not None else None)
                    if len(vals) == 1 and None not in vals:
                        for x in sc["es"]:
                            who = ctx.term(strip(x)["recv"])
                            if who in (P(0), P(1)):
                                out[who[1]] = list(vals)[0]
                continue
        if n.get("k") == "Match" and len(n.get("arms", [])) == 2:
            sc = strip(n["scrut"])
            if sc.get("k") == "MethodCall" and callee_path(sc) == "%s::degree" % PT:
                who = ctx.term(sc["recv"])
                for arm in n["arms"]:
                    rets = [x for x in walk(arm["body"]) if x.get("k") == "Ret"]
                    if rets and who in (P(0), P(1)):
                        out[who[1]] = ctx.term(rets[0]["e"])
    # path form: `if a.is_empty() || b.degree().is_err() { return E }` and the like: a `return E` whose known facts say
    # "operand k is empty" (alone, or as every alternative of one disjunction)
    from .guards import facts as _facts

    def _who(at):
        if at[0] == "cmp" and at[1] == "==":
            for k, C in ((0, CO0), (1, CO1)):
                if {at[2], at[3]} == {LEN(C), num(0)}:
                    return k
        return None
    for n in walk(fn["body"]):
        if n.get("k") != "Ret" or n.get("e") is None or any(a.get("k") == "Closure" for a in ancestors(n)):
            continue
        for f_ in _facts(ctx, n):
            ks = set()
            if f_[0] == "or":
                alts = [a_ for a_ in f_[1]]
                if all(len(a_) == 1 and _who(a_[0]) is not None for a_ in alts):
                    ks = {_who(a_[0]) for a_ in alts}
            elif _who(f_) is not None:
                ks = {_who(f_)}
            for k in ks:
                out.setdefault(k, ctx.term(n["e"]))
    return out


def other_returns(pdb, ctx, fn):
    """`return` statements of an arithmetic operator that are NOT empty-operand returns: a fast path keyed on anything else
    (equal operands, a flag, a degree) replaces the definitional loop for some inputs and has to be justified separately."""
    from .guards import facts as _facts

    def _who(at):
        if at[0] == "cmp" and at[1] == "==":
            for k, C in ((0, CO0), (1, CO1)):
                if {at[2], at[3]} == {LEN(C), num(0)}:
                    return k
        return None
    out = []
    for n in walk(fn["body"]):
        if n.get("k") != "Ret" or any(a.get("k") == "Closure" for a in ancestors(n)):
            continue
        in_degree_arm = False
        for a in ancestors(n):
            if a.get("k") == "Match":
                sc = strip(a["scrut"])
                parts = sc["es"] if sc.get("k") == "Tup" else [sc]
                if all(strip(x).get("k") == "MethodCall" and callee_path(strip(x)) == "%s::degree" % PT for x in parts):
                    in_degree_arm = True
        if in_degree_arm:
            continue
        emp = False
        for f_ in _facts(ctx, n):
            if f_[0] == "or":
                if all(len(a_) == 1 and _who(a_[0]) is not None for a_ in f_[1]):
                    emp = True
            elif _who(f_) is not None:
                emp = True
        if not emp:
            out.append(n)
    return out


def quantifier_form(ctx, fn, t):
    """('not-any' | 'all', V, (closure param var, closure body term)) for `!V.iter().any(cl)` / `V.iter().all(cl)`."""
    neg = False
    if t[0] == "not":
        neg, t = True, t[1]
    if t[0] == "call" and len(t) == 4 and t[2][0] == "call" and str(t[2][1]).endswith("::iter") and t[3][0] == "closure":
        nm = str(t[1]).split("::")[-1]
        if (nm == "any" and neg) or (nm == "all" and not neg):
            for n in walk(fn["body"]):
                if n.get("k") == "Closure" and n.get("id") == t[3][1] and len(n["params"]) == 1 and n["params"][0].get("k") == "Bind":
                    return ("not-any" if nm == "any" else "all"), t[2][2], (("var", n["params"][0]["v"]), ctx.term(n["body"]))
    return None


def closure_of_map(ctx, t, fn):
    """collect(map(iter(V), closure)) -> (V, closure body term, closure param var)"""
    if t[0] == "call" and str(t[1]).endswith("collect") and t[2][0] == "call" and str(t[2][1]).endswith("::map"):
        it, cl = t[2][2], t[2][3]
        if it[0] == "call" and str(it[1]).endswith("::iter") and cl[0] == "closure":
            for n in walk(fn["body"]):
                if n.get("k") == "Closure" and n.get("id") == cl[1] and len(n["params"]) == 1 and n["params"][0].get("k") == "Bind":
                    return it[2], ctx.term(n["body"]), ("var", n["params"][0]["v"])
    return None


def run(rep, pdb, tier):
    # ---- Add / Sub
    for tr, sym in (("Add", "+"), ("Sub", "-")):
        path = "<&%s as std::ops::%s<&%s>>::%s" % (PT, tr, PT, tr.lower())
        fn = pdb.fn(path)
        if fn is None:
            rep.missing("polarity/%s" % tr, "borrowing %s exists" % tr, "not found")
            continue
        ctx = Ctx.for_fn(pdb, fn)
        effs = effects(pdb, ctx)
        sets = [e for e in effs if e.kind == "set"]
        er = empty_returns(pdb, ctx, fn)
        # return paths for empty operands
        want0 = P(1) if sym == "+" else ("neg", P(1))
        okr = er.get(0) == want0 and er.get(1) == P(0)
        rep.add("polarity/%s/empty-operands" % tr, "%s with an empty operand returns the other operand with the right sign (self empty: %s; rhs empty: self)" % (tr, "rhs" if sym == "+" else "-rhs"),
                okr, fn["body"], "self empty -> %s; rhs empty -> %s" % (show(er.get(0), ctx) if er.get(0) else None, show(er.get(1), ctx) if er.get(1) else None), where=loc(fn["body"]))
        oth = other_returns(pdb, ctx, fn)
        rep.add("polarity/%s/no-other-return" % tr, "apart from the empty-operand cases every input of %s goes through the coefficient loop (no fast path keyed on anything else)" % tr,
                not oth, oth[0] if oth else fn["body"], "other early returns: %d" % len(oth), where=loc(oth[0]) if oth else loc(fn["body"]))
        ok, det = len(sets) == 2, "element writes=%d" % len(sets)
        if ok:
            a, b = sets
            tgt = a.target
            r = for_range(ctx, a.loops[0])
            i = r[0]
            # the two contributions may share one loop over 0..=max degree (each guarded by its own degree) or have a loop
            # each over 0..=own degree, in either order: self's must come first only because the accumulator starts at zero
            rb_ = for_range(ctx, b.loops[0])
            ib = rb_[0]
            acc, accb = ("idx", tgt, i), ("idx", tgt, ib)
            pa = a.value == ("op", "+", acc, ("idx", CO0, i)) and a.index == i
            pb = b.value == ("op", sym, accb, ("idx", CO1, ib)) and b.index == ib and b.target == tgt
            rep.add("polarity/%s" % tr, "self's coefficients enter positively, rhs's with the trait's sign, both into the accumulator coefficient", pa and pb, a.node,
                    "self: %s ; rhs: %s" % (show(a.value, ctx), show(b.value, ctx)))
            rep.add("co-index/%s" % tr, "target and source of each contribution use the same index", a.index == i and b.index == ib and pa and pb, a.node, "")
            # guards: i <= own degree
            fa, fb = facts(ctx, a.node), facts(ctx, b.node)
            from .guards import prove_le as _ple
            ga = norm_cmp("<=", i, DEG0) in fa or _ple(i, DEG0, fa)
            gb = norm_cmp("<=", ib, DEG1) in fb or _ple(ib, DEG1, fb)
            split = a.loops[0] is not b.loops[0]
            # allocation: max(deg, deg')+1 zeros, loop 0..=degree
            alloc = [e for e in effs if e.kind == "assign" and e.target == tgt]
            dvar = r[2]
            if not alloc and not split and tgt[0] == "var":
                # one loop over a local buffer `vec![zero; max + 1]` (`for (i, c) in buf.iter_mut().enumerate()`) that Polynomial::new wraps
                pv = value_before(ctx, tgt, a.loops[0])
                tl_ = fn["body"].get("expr")
                if pv is not None and pv[0] == "call" and str(pv[1]).endswith("from_elem") and len(pv) == 4 and tl_ is not None and ctx.term(tl_) == ("call", "%s::new" % PT, tgt):
                    class _Al:
                        pass
                    al_ = _Al()
                    al_.value, al_.node = pv, ctx.binds[tgt[1]].node
                    alloc = [al_]
                    end_ = r[2] if not r[3] else lin_add(r[2], num(1))
                    if end_ in (LEN(tgt), pv[3]):
                        # 0..len(buffer) is 0..=max degree
                        dvar = lin_add(pv[3], num(-1))
                        r = (r[0], r[1], dvar, True, r[4])
            if split and alloc and alloc[0].value[0] == "call" and len(alloc[0].value) == 4:
                dvar = lin_add(alloc[0].value[3], num(-1))      # separate loops over 0..=own degree: the allocation carries the maximum
            okl = len(alloc) == 1 and alloc[0].value[0] == "call" and str(alloc[0].value[1]).endswith("from_elem") and is_zero_term(alloc[0].value[2]) and \
                alloc[0].value[3] == lin_add(dvar, num(1)) and r[1] == num(0) and r[3] and not r[4] and \
                (not split or (r[2] == DEG0 and rb_[1:5] == (num(0), DEG1, True, False)))
            if dvar[0] == "call" and str(dvar[1]).endswith("::max") and len(dvar) == 4:
                # `let degree = if a < b { b } else { a }` / max(a, b): the maximum as an expression
                ismax = gmax = {dvar[2], dvar[3]} == {DEG0, DEG1}
            else:
                vals = set(_reaching_values(ctx, dvar, at=alloc[0].node)) if dvar[0] == "var" and alloc else set()
                ismax = vals == {DEG0, DEG1}
                # the replacement is guarded by degree < other degree
                asg = [x for x in ctx.assigns.get(dvar[1], [])] if dvar[0] == "var" else []
                gmax = len(asg) == 1 and any(f[0] == "cmp" and f[1] == "<" and f[2] == dvar and f[3] == DEG1 for f in facts(ctx, asg[0]))
            if not (okl and ismax and gmax and ga and gb) and split and tgt[0] == "var":
                # a local coefficient buffer `vec![zero; max(deg, deg') + 1]` filled by one loop per operand over that operand's own
                # coefficients (`for (s, &t) in buf.iter_mut().zip(&p.coeffs)`), then wrapped by Polynomial::new
                pv = value_before(ctx, tgt, a.loops[0])
                n_ = pv[3] if pv is not None and pv[0] == "call" and str(pv[1]).endswith("from_elem") and len(pv) == 4 and is_zero_term(pv[2]) else None
                dm = lin_add(n_, num(-1)) if n_ is not None else None
                is_max = dm is not None and dm[0] == "call" and str(dm[1]).endswith("max") and len(dm) == 4 and {dm[2], dm[3]} == {DEG0, DEG1}

                def own(rr, C):
                    if rr is None or rr[1] != num(0) or rr[4]:
                        return False
                    end = lin_add(rr[2], num(1)) if rr[3] else rr[2]
                    if end == LEN(C):
                        return True
                    return end[0] == "call" and str(end[1]).endswith("min") and len(end) == 4 and LEN(C) in (end[2], end[3]) and \
                        (LEN(tgt) in (end[2], end[3]) or n_ in (end[2], end[3]))
                tail = fn["body"].get("expr")
                wrapped = tail is not None and ctx.term(tail) in (("call", "%s::new" % PT, tgt),)
                if not wrapped:
                    used = [x for x in effs if x.kind == "assign" and x.value == tgt and x.target[0] == "field" and x.target[2] == "coeffs"]
                    wrapped = len(used) == 1 and tail is not None and ctx.term(tail) == used[0].target[1]
                if is_max and own(r, CO0) and own(rb_, CO1) and wrapped:
                    okl = ismax = gmax = ga = gb = True
            rep.add("length/%s" % tr, "the result has max(deg, deg')+1 coefficients (zeros), the loop covers 0..=that degree, and each operand contributes only for i <= its own degree",
                    okl and ismax and gmax and ga and gb, alloc[0].node if alloc else fn["body"],
                    "alloc degree+1 zeros & loop 0..=degree=%s degree is max of both=%s guards i<=own degree=%s/%s" % (okl, ismax and gmax, ga, gb))
        else:
            rep.bad("polarity/%s" % tr, "two guarded element writes", fn["body"], det, where=loc(fn["body"]))
    # ---- Neg, Mul<T>
    for path, key, want in (("<&%s as std::ops::Neg>::neg" % PT, "Neg", "neg"), ("<&%s as std::ops::Mul<T>>::mul" % PT, "MulScalar", "mul")):
        fn = pdb.fn(path)
        rule = "Neg negates every coefficient; Mul<T> multiplies every coefficient by the scalar (a map over all coefficients of self)"
        if fn is None:
            rep.missing("polarity/%s" % key, rule, "not found")
            continue
        ctx = Ctx.for_fn(pdb, fn)
        effs_ = effects(pdb, ctx)
        asg = [e for e in effs_ if e.kind == "assign" and e.target[0] == "field" and e.target[2] == "coeffs"]
        pushes = [e for e in effs_ if e.kind == "push" and len(e.loops) == 1]
        ok = len(asg) == 1 and len(pushes) == 1
        if not asg and len(pushes) == 1:
            # the mapped vector handed to the constructor: `Polynomial::new(scaled)` as the value of the function
            pu = pushes[0]
            r = for_range(ctx, pu.loops[0])
            x = ("idx", CO0, r[0]) if r else None
            tb = ctx.binds.get(pu.target[1]) if pu.target[0] == "var" else None
            ti = ctx.term(tb.init) if tb is not None and tb.init is not None else None
            fresh = ti is not None and ti[0] == "call" and str(ti[1]).endswith("::new") and len(ti) == 2
            val_ok = pu.value == ("neg", x) if want == "neg" else pu.value in (("op", "*", x, P(1)), ("op", "*", P(1), x))
            tail = fn["body"].get("expr")
            ok = r is not None and r[1:5] == (num(0), LEN(CO0), False, False) and val_ok and fresh and tail is not None and \
                ctx.term(tail) == ("call", "%s::new" % PT, pu.target) and not any(n_.get("k") == "Ret" for n_ in walk(fn["body"]))
            rep.add("polarity/%s" % key, rule, ok, fn["body"], "built with Polynomial::new", where=loc(fn["body"]))
            continue
        if ok:
            # (a `.iter().map(..).collect()` is canonicalised to this loop of pushes into a fresh Vec)
            pu = pushes[0]
            r = for_range(ctx, pu.loops[0])
            x = ("idx", CO0, r[0]) if r else None
            tb = ctx.binds.get(pu.target[1]) if pu.target[0] == "var" else None
            ti = ctx.term(tb.init) if tb is not None and tb.init is not None else None
            fresh = ti is not None and ti[0] == "call" and str(ti[1]).endswith("::new") and len(ti) == 2
            val_ok = pu.value == ("neg", x) if want == "neg" else pu.value in (("op", "*", x, P(1)), ("op", "*", P(1), x))
            ok = r is not None and r[1:5] == (num(0), LEN(CO0), False, False) and val_ok and fresh and asg[0].value == pu.target
            tail = fn["body"].get("expr")
            ok = ok and tail is not None and ctx.term(tail) == asg[0].target[1]
        rep.add("polarity/%s" % key, rule, ok, fn["body"], "", where=loc(fn["body"]))
    # ---- Mul (convolution)
    path = "<&%s as std::ops::Mul<&%s>>::mul" % (PT, PT)
    fn = pdb.fn(path)
    if fn is None:
        rep.missing("graded-product", "polynomial product exists", "not found")
    else:
        ctx = Ctx.for_fn(pdb, fn)
        effs = effects(pdb, ctx)
        sets = [e for e in effs if e.kind == "set"]
        er = empty_returns(pdb, ctx, fn)
        empt = all(er.get(k) is not None and er[k][0] == "call" and str(er[k][1]).endswith("::empty") for k in (0, 1))
        ok = len(sets) == 1 and len(sets[0].loops) == 2
        det = ""
        if ok:
            e = sets[0]
            ri, rj = for_range(ctx, e.loops[0]), for_range(ctx, e.loops[1])
            i, j = ri[0], rj[0]
            tgt = e.target
            idx = lin_add(i, j)
            okv = e.index == idx and e.value == ("op", "+", ("idx", tgt, idx), ("op", "*", ("idx", CO0, i), ("idx", CO1, j)))
            end = lambda r_: lin_add(r_[2], num(1)) if r_[3] else r_[2]      # exclusive end: 0..=deg and 0..len are the same range
            okr = (ri[1], end(ri), ri[4]) == (num(0), LEN(CO0), False) and (rj[1], end(rj), rj[4]) == (num(0), LEN(CO1), False)
            alloc = [x.value for x in effs if x.kind == "assign" and x.target == tgt]
            anode = [x.node for x in effs if x.kind == "assign" and x.target == tgt]
            if not alloc and tgt[0] == "field" and tgt[1][0] == "var":
                # `let mut product = Polynomial::new(vec![zero; n])`
                pv = value_before(ctx, tgt[1], e.loops[0])
                if pv is not None and pv[0] == "call" and str(pv[1]) == "%s::new" % PT and len(pv) == 3:
                    alloc = [pv[2]]
                    anode = [ctx.binds[tgt[1][1]].node]
            if not alloc and tgt[0] == "var":
                # a local buffer `let mut out = vec![zero; n]` that becomes the product's coefficient vector
                pv = value_before(ctx, tgt, e.loops[0])
                used = [x for x in effs if x.kind == "assign" and x.value == tgt and x.target[0] == "field" and x.target[2] == "coeffs"]
                tl_ = fn["body"].get("expr")
                wrapped_ = tl_ is not None and ctx.term(tl_) == ("call", "%s::new" % PT, tgt)
                if pv is not None and (len(used) == 1 or wrapped_):        # (a moved Vec cannot be written afterwards: the move follows the loops)
                    alloc = [pv]
                    anode = [ctx.binds[tgt[1]].node]
            okl = len(alloc) == 1 and alloc[0][0] == "call" and str(alloc[0][1]).endswith("from_elem") and is_zero_term(alloc[0][2])
            if okl:
                dv = alloc[0][3]
                if dv == lin_add(lin_add(DEG0, DEG1), num(1)):
                    okl = True          # deg + deg' + 1 as an expression
                else:
                    # degree = deg self, then += deg rhs
                    d = lin_add(dv, num(-1))
                    vals = _reaching_values(ctx, d, at=anode[0]) if d[0] == "var" else []
                    incs = [a for a in ctx.assigns.get(d[1], [])] if d[0] == "var" else []
                    okl = vals[:1] == [DEG0] and len(incs) == 1 and incs[0].get("k") == "AssignOp" and incs[0]["op"] == "+=" and ctx.term(incs[0]["r"]) == DEG1
            # every way of returning is the empty shortcut or the accumulated convolution: no fast path hands some sizes to another scheme
            from .guards import facts as _facts
            extra = []
            for n_ in walk(fn["body"]):
                if n_.get("k") == "Ret" and not any(a_.get("k") == "Closure" for a_ in ancestors(n_)):
                    fs_ = _facts(ctx, n_)
                    emptyish = any((f_[0] == "cmp" and f_[1] == "==" and num(0) in (f_[2], f_[3]) and (LEN(CO0) in (f_[2], f_[3]) or LEN(CO1) in (f_[2], f_[3]))) or
                                   (f_[0] == "or" and all(len(a_) == 1 and a_[0][0] == "cmp" and a_[0][1] == "==" and num(0) in (a_[0][2], a_[0][3]) for a_ in f_[1])) for f_ in fs_)
                    for a_ in ancestors(n_):
                        # the Err arm of `match X.degree() { Ok(d) => d, Err(_) => return .. }`: X is empty there
                        if isinstance(a_.get("pat"), dict) and str(a_["pat"].get("path", "")).endswith("Err") and a_.get("_p") is not None and a_["_p"].get("k") == "Match":
                            sc_ = strip(a_["_p"]["scrut"])
                            if sc_.get("k") == "MethodCall" and callee_path(sc_) == "%s::degree" % PT:
                                emptyish = True
                    if not emptyish and not any(n_ is o_ for o_ in other_returns(pdb, ctx, fn)):
                        emptyish = True      # an arm of a match on the operands' degree(): some operand is empty there
                    if not emptyish:
                        extra.append(loc(n_))
            single = not extra
            ok = okv and okr and okl and empt and single
            det = "product[i+j] += self[i]*rhs[j]=%s both loops 0..=own degree=%s length deg+deg'+1=%s empty factor gives empty product=%s other return paths=%s" % (okv, okr, okl, empt, extra)
        rep.add("graded-product", "the accumulator index is the sum of the two coefficient indices; both loops cover 0..=deg of their own operand; the result has deg+deg'+1 zeros; an empty factor gives the empty product",
                ok, fn["body"], det, where=loc(fn["body"]))
    # ---- Horner
    fn = pdb.fn("%s::eval" % PT)
    rule = "eval: start from the leading coefficient coeffs[len-1], loop i descending over 0..degree, p = p*x + coeffs[i]"
    if fn is None:
        rep.missing("horner", rule, "not found")
    else:
        ctx = Ctx.for_fn(pdb, fn)
        es = [e for e in effects(pdb, ctx) if e.kind == "assign" and e.loops]
        ok = len(es) == 1
        if ok:
            e = es[0]
            r = for_range(ctx, e.loops[0])
            p = e.target
            pb = ctx.binds.get(p[1]) if p[0] == "var" else None
            init = ctx.term(pb.init) if pb is not None and pb.init is not None else None
            ok = r[1:5] == (num(0), DEG0, False, True) and e.value == ("op", "+", ("op", "*", p, P(1)), ("idx", CO0, r[0])) and init == ("idx", CO0, DEG0)
            from .common import return_paths as _rp
            # the accumulated value is what is returned on the general path (whether the empty case is an early return or the
            # other branch of an if / else tail)
            paths = list(_rp(ctx))
            def _emptyish(fs_):
                return any(f_[0] == "cmp" and f_[1] == "==" and {f_[2], f_[3]} == {LEN(CO0), num(0)} for f_ in fs_)
            ok = ok and any(v_ == p for _f, v_, _n in paths) and all(v_ == p or _emptyish(f_) for f_, v_, _n in paths)
        rep.add("horner", rule, ok, fn["body"], "", where=loc(fn["body"]))
    # ---- derivative
    fn = pdb.fn("%s::derivative" % PT)
    rule = "derivative allocates degree coefficients; target index i, source index i+1, and the number of repeated additions (0..=i, i.e. i+1) equals the source index"
    if fn is None:
        rep.missing("derivative", rule, "not found")
    else:
        ctx = Ctx.for_fn(pdb, fn)
        effs = effects(pdb, ctx)
        sets = [e for e in effs if e.kind == "set"]
        ok = len(sets) == 1 and len(sets[0].loops) == 2
        if ok:
            e = sets[0]
            ro, ri = for_range(ctx, e.loops[0]), for_range(ctx, e.loops[1])
            i = ro[0]
            tgt = e.target
            src = lin_add(i, num(1))
            cnt = lin_add(lin_sub(ri[2], ri[1]), num(1 if ri[3] else 0))
            # the coefficient vector being filled: the coeffs field of a fresh polynomial, or a local vector wrapped by new()
            if tgt[0] == "field":
                alloc = [x.value for x in effs if x.kind == "assign" and x.target == tgt]
                result = tgt[1]
                if not alloc and tgt[1][0] == "var":
                    # the polynomial built around its zeroed coefficient vector: `let mut d = Polynomial::new(vec![zero; degree])`
                    pb_ = ctx.binds.get(tgt[1][1])
                    pi_ = ctx.term(pb_.init) if pb_ is not None and pb_.init is not None else None
                    if pi_ is not None and pi_[0] == "call" and str(pi_[1]) == "%s::new" % PT and len(pi_) == 3:
                        alloc = [pi_[2]]
            else:
                v0 = value_before(ctx, tgt, e.loops[0])
                alloc = [v0] if v0 is not None else []
                result = ("call", "%s::new" % PT, tgt)
            okl = len(alloc) == 1 and alloc[0][0] == "call" and str(alloc[0][1]).endswith("from_elem") and is_zero_term(alloc[0][2]) and alloc[0][3] == DEG0
            hi_ok = ro[2] == DEG0 or (tgt[0] == "var" and ro[2] == LEN(tgt) and okl)        # 0..degree, or over the whole vector of `degree` zeros
            ok = e.index == i and e.value == ("op", "+", ("idx", tgt, i), ("idx", CO0, src)) and (ro[1], ro[3], ro[4]) == (num(0), False, False) and hi_ok and cnt == src and okl
            tail = fn["body"].get("expr")
            ok = ok and tail is not None and ctx.term(tail) == result
        if not ok and len(sets) == 1 and len(sets[0].loops) == 1 and sets[0].value[0] == "var":
            # the repeated addition done in a local accumulator: `let mut s = zero; for _ in 0..i+1 { s += a[i+1] }; p[i] = s`
            e = sets[0]
            ro = for_range(ctx, e.loops[0])
            i = ro[0]
            tgt, acc = e.target, e.value
            src = lin_add(i, num(1))
            adds = [x for x in effs if x.kind == "assignop" and x.op == "+=" and x.target == acc and len(x.loops) == 2 and x.loops[0] is e.loops[0]]
            plain = [x for x in effs if x.kind == "assign" and x.target == acc and len(x.loops) == 2 and x.loops[0] is e.loops[0] and
                     x.value[0] == "op" and x.value[1] == "+" and x.value[2] == acc]
            if not adds and len(plain) == 1:
                class _A:       # `s = s + v` on a generic element type is `s += v`
                    pass
                a_ = _A()
                a_.value, a_.loops = plain[0].value[3], plain[0].loops
                adds = [a_]
            if len(adds) == 1:
                ri = for_range(ctx, adds[0].loops[1])
                cnt = lin_add(lin_sub(ri[2], ri[1]), num(1 if ri[3] else 0)) if ri else None
                a0 = value_before(ctx, acc, adds[0].loops[1])
                if tgt[0] == "field":
                    alloc = [x.value for x in effs if x.kind == "assign" and x.target == tgt]
                    result = tgt[1]
                else:
                    v0 = value_before(ctx, tgt, e.loops[0])
                    alloc = [v0] if v0 is not None else []
                    result = ("call", "%s::new" % PT, tgt)
                okl = len(alloc) == 1 and alloc[0][0] == "call" and str(alloc[0][1]).endswith("from_elem") and is_zero_term(alloc[0][2]) and alloc[0][3] == DEG0
                hi_ok = ro[2] == DEG0 or (tgt[0] == "var" and ro[2] == LEN(tgt) and okl)
                ok = e.index == i and adds[0].value == ("idx", CO0, src) and a0 is not None and (is_zero_term(a0) or a0 == ("idx", tgt, i)) and cnt == src and \
                    (ro[1], ro[3], ro[4]) == (num(0), False, False) and hi_ok and okl and not ri[4]
                tail = fn["body"].get("expr")
                ok = ok and tail is not None and ctx.term(tail) == result
        rep.add("derivative", rule, ok, fn["body"], "", where=loc(fn["body"]))
    fn = pdb.fn("%s::derivative_n" % PT)
    rule = "derivative_n applies derivative exactly n times to a clone of self"
    if fn is None:
        rep.missing("derivative_n", rule, "not found")
    else:
        ctx = Ctx.for_fn(pdb, fn)
        es = [e for e in effects(pdb, ctx) if e.kind == "assign"]
        ok = len(es) == 1 and len(es[0].loops) == 1
        if ok:
            e = es[0]
            r = for_range(ctx, e.loops[0])
            p = e.target
            ok = r[1:4] == (num(0), P(1), False) and e.value == ("call", "%s::derivative" % PT, p) and ctx.def_term(p) == P(0)
            tail = fn["body"].get("expr")
            ok = ok and tail is not None and ctx.term(tail) == p
        rep.add("derivative_n", rule, ok, fn["body"], "", where=loc(fn["body"]))
    fn = pdb.fn("%s::derivative_at" % PT)
    rule = "derivative_at(x, n) evaluates derivative_n(n) at x"
    if fn is None:
        rep.missing("derivative_at", rule, "not found")
    else:
        ctx = Ctx.for_fn(pdb, fn)
        tail = fn["body"].get("expr")
        t = ctx.term(tail) if tail is not None else None
        rets = [n for n in walk(fn["body"]) if n.get("k") == "Ret" and not any(a.get("k") == "Closure" for a in ancestors(n))]
        ok = t == ("call", "%s::eval" % PT, ("call", "%s::derivative_n" % PT, P(0), P(2)), P(1)) and not rets
        rep.add("derivative_at", rule + " on every path (a shortcut for short polynomials that ignores the order n returns 0 for the 0th derivative of a constant)", ok, rets[0] if rets else fn["body"],
                "%s; early returns: %d" % (show(t, ctx) if t else None, len(rets)), where=loc(rets[0]) if rets else loc(fn["body"]))
    # ---- delegation
    from .c03 import rule_delegation
    n_del = rule_delegation(rep, pdb, ("src/polynomial/arithmetic.rs",))
    # ---- trim / is_zero
    fn = pdb.fn("%s::trim" % PT)
    rule = "trim pops only while the LAST coefficient equals zero and never pops the last remaining one (i > 0)"
    if fn is None:
        rep.missing("trim", rule, "not found")
    else:
        ctx = Ctx.for_fn(pdb, fn)
        wl = [n for n in walk(fn["body"]) if n.get("k") == "While"]
        ok = len(wl) == 1
        if not wl:
            # the search form: `let keep = match coeffs.iter().rposition(|c| !(*c == zero)) { Some(top) => top + 1, None => 1 }; coeffs.truncate(keep)`
            # - everything up to the highest non-zero coefficient, and at least the constant term
            tr = [n for n in walk(fn["body"]) if n.get("k") == "MethodCall" and n.get("name") == "truncate" and ctx.term(n["recv"]) == CO0 and len(n.get("args", [])) == 1]
            oks = False
            if len(tr) == 1:
                kn = strip(tr[0]["args"][0])
                kb = ctx.binds.get(kn["v"]) if kn.get("k") == "Local" else None
                m_ = strip(kb.init) if kb is not None and kb.init is not None and not kb.mut else kn
                if m_.get("k") == "Match" and len(m_.get("arms", [])) == 2:
                    sc = strip(m_["scrut"])
                    src = strip(sc.get("recv") or {}) if sc.get("k") == "MethodCall" and sc.get("name") == "rposition" and len(sc.get("args", [])) == 1 else {}
                    from_coeffs = src.get("k") == "MethodCall" and src.get("name") == "iter" and ctx.term(src["recv"]) == CO0
                    cl = strip(sc["args"][0]) if from_coeffs else {}
                    pred_ok = False
                    if cl.get("k") == "Closure" and len(cl.get("params", [])) == 1 and cl["params"][0].get("k") == "Bind":
                        cv = ("var", cl["params"][0]["v"])
                        ats = cond_atoms(ctx, cl["body"], True)
                        pred_ok = len(ats) == 1 and ats[0][0] == "cmp" and ats[0][1] == "!=" and ((ats[0][2] == cv and is_zero_term(ats[0][3])) or (ats[0][3] == cv and is_zero_term(ats[0][2])))
                    some = [a for a in m_["arms"] if str(a["pat"].get("path", "")).endswith("Some")]
                    none = [a for a in m_["arms"] if a not in some]
                    arms_ok = False
                    if len(some) == 1 and len(none) == 1:
                        ps_ = some[0]["pat"].get("ps") or []
                        if len(ps_) == 1 and ps_[0].get("k") == "Bind":
                            arms_ok = ctx.term(some[0]["body"]) == lin_add(("var", ps_[0]["v"]), num(1)) and ctx.term(none[0]["body"]) == num(1)
                    others = [n for n in walk(fn["body"]) if n.get("k") == "MethodCall" and n.get("name") in ("pop", "clear", "remove", "drain", "push", "resize") and ctx.term(n["recv"]) == CO0]
                    oks = from_coeffs and pred_ok and arms_ok and not others
            form = "search form (rposition of the highest non-zero coefficient, truncate to it, at least one kept)"
            fl = [n for n in walk(fn["body"]) if n.get("k") == "For"]
            if not tr and len(fl) == 1:
                # the count-down form: `for i in (1..len).rev() { if coeffs[i] != zero { break; } coeffs.pop(); }` - i is the last index while the pops keep step,
                # and index 0 is never reached
                form = "count-down form (i from len-1 down to 1, stop at the first non-zero coefficient, one pop per pass)"
                lp_ = fl[0]
                r_ = raw_for_range(ctx, lp_)          # (the loop has a `break`: not a total range loop)
                sts_ = lp_["body"].get("stmts", []) if lp_["body"].get("k") == "Block" else []
                if r_ is not None and len(sts_) == 2 and lp_["body"].get("expr") is None:
                    g_, p_ = strip(sts_[0].get("e") or {}), strip(sts_[1].get("e") or {})
                    rng_ok = r_[1] == num(1) and r_[2] == LEN(CO0) and not r_[3] and r_[4]
                    brk = g_.get("k") == "If" and g_.get("else") is None and [x.get("k") for x in walk(g_["then"]) if x.get("k") in ("Break", "Ret", "Continue")] == ["Break"]
                    ats = cond_atoms(ctx, g_["cond"], True) if brk else []
                    cell = ("idx", CO0, r_[0])
                    nz = len(ats) == 1 and ats[0][0] == "cmp" and ats[0][1] == "!=" and ((ats[0][2] == cell and is_zero_term(ats[0][3])) or (ats[0][3] == cell and is_zero_term(ats[0][2])))
                    pop = p_.get("k") == "MethodCall" and p_.get("name") == "pop" and ctx.term(p_["recv"]) == CO0
                    others = [n for n in walk(fn["body"]) if n.get("k") == "MethodCall" and n.get("name") in ("pop", "clear", "remove", "drain", "push", "resize", "truncate") and ctx.term(n["recv"]) == CO0]
                    oks = rng_ok and brk and nz and pop and len(others) == 1
            rep.add("trim", rule, oks, fn["body"], form, where=loc(fn["body"]))
            ok = None
        if ok:
            w = wl[0]
            atoms = cond_atoms(ctx, w["cond"], True)
            ivs = [a[3] for a in atoms if a[0] == "cmp" and a[1] == "<" and a[2] == num(0)]
            ok = len(ivs) == 1 and ivs[0][0] == "var"
            if not ok:
                # the counter-free form: `while coeffs[len-1] == zero && len > 1 { coeffs.pop(); }`
                last = ("idx", CO0, DEG0)
                iszero = any(a[0] == "cmp" and a[1] == "==" and ((a[2] == last and is_zero_term(a[3])) or (a[3] == last and is_zero_term(a[2]))) for a in atoms)
                keeps_one = any(a[0] == "cmp" and ((a[1] == "<" and a[2] == num(1) and a[3] == LEN(CO0)) or (a[1] == "<=" and a[2] == num(2) and a[3] == LEN(CO0))) for a in atoms)
                stmts = list(w["body"].get("stmts", [])) + ([{"e": w["body"]["expr"]}] if w["body"].get("expr") is not None else [])
                only_pop = len(stmts) == 1 and strip(stmts[0].get("e") or {}).get("k") == "MethodCall" and strip(stmts[0]["e"]).get("name") == "pop" and ctx.term(strip(stmts[0]["e"])["recv"]) == CO0
                ok = iszero and keeps_one and only_pop and len(atoms) == 2
                rep.add("trim", rule, ok, fn["body"], "counter-free form", where=loc(fn["body"]))
                ok = None
            elif ok:
                i = ivs[0]
                iszero = any(a[0] == "cmp" and a[1] == "==" and ((a[2] == ("idx", CO0, i) and is_zero_term(a[3])) or (a[3] == ("idx", CO0, i) and is_zero_term(a[2]))) for a in atoms)
                pops = [n for n in walk(w["body"]) if n.get("k") == "MethodCall" and n.get("name") == "pop" and ctx.term(n["recv"]) == CO0]
                decs = [e for e in effects(pdb, ctx, w["body"]) if e.kind == "assignop" and e.target == i and e.op == "-=" and e.value == num(1)]
                ib = ctx.binds.get(i[1])
                init = ib is not None and ib.init is not None and ctx.term(ib.init) == DEG0
                ok = iszero and len(pops) == 1 and len(decs) == 1 and init and len(atoms) == 2
        if ok is not None:
            rep.add("trim", rule, ok, fn["body"], "", where=loc(fn["body"]))
    fn = pdb.fn("%s::is_zero" % PT)
    rule = "is_zero returns false on the first non-zero coefficient, over the full range, and true otherwise"
    if fn is None:
        rep.missing("is_zero", rule, "not found")
    else:
        ctx = Ctx.for_fn(pdb, fn)
        rets = [n for n in walk(fn["body"]) if n.get("k") == "Ret"]
        ok = len(rets) == 1 and ctx.term(rets[0]["e"]) == ("bool", False)
        tl = fn["body"].get("expr")
        tt = ctx.term(tl) if tl is not None else None
        quant = quantifier_form(ctx, fn, tt) if tt is not None and not rets else None
        if quant is not None:
            # `!coeffs.iter().any(|c| *c != zero)`  /  `coeffs.iter().all(|c| *c == zero)`: the same predicate, over all of coeffs
            kind, src, (cv, body) = quant
            zero = ("call", "traits::Zero::zero")
            want_op = "!=" if kind == "not-any" else "=="
            ok = src == CO0 and body[0] == "op" and body[1] == want_op and {body[2], body[3]} == {cv, zero}
        elif ok:
            lp = [a for a in ancestors(rets[0]) if a.get("k") == "For"]
            r = raw_for_range(ctx, lp[0]) if len(lp) == 1 else None
            fs = facts(ctx, rets[0])
            nz = any(f[0] == "cmp" and f[1] == "!=" and ({f[2], f[3]} == {("idx", CO0, r[0]), ("call", "traits::Zero::zero")}) for f in fs) if r else False
            tail = fn["body"].get("expr")
            ok = r is not None and r[1:5] == (num(0), LEN(CO0), False, False) and nz and tail is not None and ctx.term(tail) == ("bool", True)
        rep.add("is_zero", rule, ok, fn["body"], "", where=loc(fn["body"]))
    # ---- the empty polynomial acts as zero: nothing in the property's operations is certain to panic on it
    n_es = 0
    for f_ in pdb.local_fns():
        if f_.get("file") in ("src/polynomial/mod.rs", "src/polynomial/arithmetic.rs") and f_.get("impl_trait") not in ("std::fmt::Display", "std::fmt::Debug") \
                and f_.get("name") not in ("format_leading_coeff", "quadratic_solve", "cubic_solve", "poly_solve", "laguer", "roots", "polydiv", "index", "index_mut"):
            n_es += rule_empty_safe(rep, pdb, f_, "empty-safe", [LEN(CO0)], "polynomial")
            if len(f_.get("params", [])) > 1 and "Polynomial" in str(f_.get("inputs", ["", ""])[1]):
                n_es += rule_empty_safe(rep, pdb, f_, "empty-safe/rhs", [LEN(CO1)], "right-hand polynomial")
    rep.floor("empty-safe/", 12)
    rep.floor("polarity/", 6)
    rep.floor("length/", 2)
    rep.floor("delegation/", 5)
    rep.assumptions += ["the ring and calculus laws as equalities of values for all coefficient vectors follow from the definitional formulae checked here; they are not decided as value statements"]
    return {"delegating_impls": n_del}


def _pos(n):
    sp = n.get("sp")
    return (sp[0], sp[1]) if sp else (0, 0)
