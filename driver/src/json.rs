// Minimal JSON value + writer (zero dependencies).
pub enum J {
    Null,
    Bool(bool),
    Int(i64),
    Str(String),
    Arr(Vec<J>),
    Obj(Vec<(&'static str, J)>),
}

impl J {
    pub fn s(x: impl Into<String>) -> J {
        J::Str(x.into())
    }
    pub fn opt(x: Option<J>) -> J {
        x.unwrap_or(J::Null)
    }
    pub fn write(&self, out: &mut String) {
        match self {
            J::Null => out.push_str("null"),
            J::Bool(b) => out.push_str(if *b { "true" } else { "false" }),
            J::Int(i) => out.push_str(&i.to_string()),
            J::Str(s) => write_str(s, out),
            J::Arr(v) => {
                out.push('[');
                for (i, x) in v.iter().enumerate() {
                    if i > 0 {
                        out.push(',');
                    }
                    x.write(out);
                }
                out.push(']');
            }
            J::Obj(v) => {
                out.push('{');
                let mut first = true;
                for (k, x) in v.iter() {
                    if let J::Null = x {
                        continue;
                    }
                    if !first {
                        out.push(',');
                    }
                    first = false;
                    write_str(k, out);
                    out.push(':');
                    x.write(out);
                }
                out.push('}');
            }
        }
    }
}

fn write_str(s: &str, out: &mut String) {
    out.push('"');
    for c in s.chars() {
        match c {
            '"' => out.push_str("\\\""),
            '\\' => out.push_str("\\\\"),
            '\n' => out.push_str("\\n"),
            '\r' => out.push_str("\\r"),
            '\t' => out.push_str("\\t"),
            c if (c as u32) < 0x20 => out.push_str(&format!("\\u{:04x}", c as u32)),
            c => out.push(c),
        }
    }
    out.push('"');
}
