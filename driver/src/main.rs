// ohsl-pdb-driver: a rustc_private fact extractor.
//
// Injected with RUSTC_WORKSPACE_WRAPPER under `cargo +nightly check --lib`.  After
// analysis of the crate named by $PDB_CRATE (default "ohsl") it writes one JSON
// "program database" (typed HIR of every body, items, ADTs, impls, type facts) to
// $PDB_OUT in a single write.  Nothing from the analysed crate is executed.
#![feature(rustc_private)]
#![allow(clippy::all)]

extern crate rustc_abi;
extern crate rustc_ast;
extern crate rustc_driver;
extern crate rustc_hir;
extern crate rustc_interface;
extern crate rustc_middle;
extern crate rustc_session;
extern crate rustc_span;

mod json;
mod dump;

use rustc_driver::{Callbacks, Compilation};
use rustc_interface::interface::Compiler;
use rustc_middle::ty::TyCtxt;

struct Cb {
    krate: String,
    out: Option<String>,
}

impl Callbacks for Cb {
    fn after_analysis<'tcx>(&mut self, _c: &Compiler, tcx: TyCtxt<'tcx>) -> Compilation {
        let name = tcx.crate_name(rustc_hir::def_id::LOCAL_CRATE).to_string();
        if name == self.krate {
            if let Some(out) = &self.out {
                let j = dump::dump_crate(tcx);
                let mut s = String::with_capacity(1 << 22);
                j.write(&mut s);
                std::fs::write(out, s).expect("pdb write failed");
            }
        }
        Compilation::Continue
    }
}

fn main() -> std::process::ExitCode {
    // As a workspace wrapper we are called as: <driver> <rustc> <args...>
    let mut args: Vec<String> = std::env::args().collect();
    if args.len() > 1 && (args[1].ends_with("rustc") || args[1].contains("/rustc")) {
        args.remove(1);
    }
    let krate = std::env::var("PDB_CRATE").unwrap_or_else(|_| "ohsl".to_string());
    let out = std::env::var("PDB_OUT").ok();
    let mut cb = Cb { krate, out };
    rustc_driver::catch_with_exit_code(move || {
        rustc_driver::run_compiler(&args, &mut cb);
    })
}
