// Typed-HIR dump: items, ADTs, impls, bodies as JSON.
use crate::json::J;
use rustc_hir as hir;
use rustc_hir::def::{DefKind, Res};
use rustc_hir::def_id::{DefId, LocalDefId};
use rustc_hir::{Expr, ExprKind, LoopSource, MatchSource, Pat, PatKind, QPath, StmtKind};
use rustc_middle::ty::print::with_no_trimmed_paths;
use rustc_middle::ty::{self, GenericArgsRef, Ty, TyCtxt, TypeVisitableExt, TypingEnv};
use rustc_span::{ExpnKind, Span};
use std::collections::BTreeMap;

pub fn dump_crate<'tcx>(tcx: TyCtxt<'tcx>) -> J {
    let mut d = Dumper { tcx, tys: BTreeMap::new(), unsafe_blocks: 0 };
    let mut fns = Vec::new();
    let mut owners: Vec<LocalDefId> = tcx.hir_body_owners().collect();
    owners.sort_by_key(|d| tcx.def_span(*d).lo());
    for def_id in owners {
        let dk = tcx.def_kind(def_id);
        if matches!(dk, DefKind::Closure | DefKind::SyntheticCoroutineBody) {
            continue;
        }
        fns.push(d.dump_owner(def_id, dk));
    }
    let mut adts = Vec::new();
    let mut impls = Vec::new();
    let mut unsafe_items = 0i64;
    for id in tcx.hir_free_items() {
        let item = tcx.hir_item(id);
        let did = item.owner_id.def_id;
        match &item.kind {
            hir::ItemKind::Struct(..) | hir::ItemKind::Enum(..) | hir::ItemKind::Union(..) => {
                adts.push(d.dump_adt(did));
            }
            hir::ItemKind::Impl(imp) => {
                impls.push(d.dump_impl(did, imp));
                if let Some(of) = imp.of_trait {
                    // `#[derive(Clone, Copy)]` expands to a compiler-generated `unsafe impl TrivialClone`: not user code
                    if matches!(of.safety, hir::Safety::Unsafe) && !item.span.from_expansion() {
                        unsafe_items += 1;
                    }
                }
            }
            hir::ItemKind::Fn { sig, .. } => {
                if sig.header.is_unsafe() {
                    unsafe_items += 1;
                }
            }
            _ => {}
        }
    }
    // Concrete (parameter-free) local ADT instantiations seen anywhere: is_freeze.
    let mut tyfacts = Vec::new();
    let tys: Vec<(String, Ty<'tcx>)> = d.tys.iter().map(|(k, v)| (k.clone(), *v)).collect();
    for (name, t) in tys {
        if t.has_non_region_param() || t.has_infer() || t.has_placeholders() {
            continue;
        }
        let t = tcx.erase_and_anonymize_regions(t);
        let local = match t.kind() {
            ty::Adt(def, _) => def.did().is_local(),
            _ => false,
        };
        if !local {
            continue;
        }
        let fr = t.is_freeze(tcx, TypingEnv::fully_monomorphized());
        let cp = tcx.type_is_copy_modulo_regions(TypingEnv::fully_monomorphized(), t);
        tyfacts.push(J::Obj(vec![("ty", J::s(name)), ("freeze", J::Bool(fr)), ("copy", J::Bool(cp))]));
    }
    J::Obj(vec![
        ("crate", J::s(tcx.crate_name(rustc_hir::def_id::LOCAL_CRATE).to_string())),
        ("rustc", J::s(option_env!("CFG_VERSION").unwrap_or("nightly").to_string())),
        ("fns", J::Arr(fns)),
        ("adts", J::Arr(adts)),
        ("impls", J::Arr(impls)),
        ("tyfacts", J::Arr(tyfacts)),
        ("unsafe_blocks", J::Int(d.unsafe_blocks)),
        ("unsafe_items", J::Int(unsafe_items)),
    ])
}

struct Dumper<'tcx> {
    tcx: TyCtxt<'tcx>,
    tys: BTreeMap<String, Ty<'tcx>>,
    unsafe_blocks: i64,
}

struct BodyCx<'a, 'tcx> {
    d: &'a mut Dumper<'tcx>,
    tr: &'tcx ty::TypeckResults<'tcx>,
    owner: LocalDefId,
    env: TypingEnv<'tcx>,
}

fn tystr<'tcx>(t: Ty<'tcx>) -> String {
    with_no_trimmed_paths!(t.to_string())
}

impl<'tcx> Dumper<'tcx> {
    fn note_ty(&mut self, t: Ty<'tcx>) -> String {
        let s = tystr(t);
        if let ty::Adt(..) = t.kind() {
            if !self.tys.contains_key(&s) {
                self.tys.insert(s.clone(), t);
            }
        }
        s
    }

    fn raw_path(&self, d: DefId) -> String {
        with_no_trimmed_paths!(self.tcx.def_path_str(d))
    }

    // Canonical, module-independent name: `<Self as Trait<..>>::name` for trait-impl items,
    // `SelfTy::name` for inherent-impl items, the def path otherwise.
    fn path(&self, d: DefId) -> String {
        let tcx = self.tcx;
        if matches!(tcx.def_kind(d), DefKind::AssocFn | DefKind::AssocConst { .. } | DefKind::AssocTy) {
            let parent = tcx.parent(d);
            if let DefKind::Impl { of_trait } = tcx.def_kind(parent) {
                let name = tcx.item_name(d);
                if of_trait {
                    let t = tcx.impl_trait_ref(parent).instantiate_identity().skip_normalization();
                    return with_no_trimmed_paths!(format!("{}::{}", t, name));
                } else {
                    let st = tcx.type_of(parent).instantiate_identity().skip_normalization();
                    return with_no_trimmed_paths!(format!("{}::{}", st, name));
                }
            }
        }
        self.raw_path(d)
    }

    fn span(&self, sp: Span) -> J {
        let sm = self.tcx.sess.source_map();
        // Use the call-site span for macro-generated code so that file:line is meaningful.
        let sp = sp.source_callsite();
        let lo = sm.lookup_char_pos(sp.lo());
        let hi = sm.lookup_char_pos(sp.hi());
        J::Arr(vec![
            J::Int(lo.line as i64),
            J::Int(lo.col.0 as i64),
            J::Int(hi.line as i64),
            J::Int(hi.col.0 as i64),
        ])
    }

    fn file(&self, sp: Span) -> String {
        let sm = self.tcx.sess.source_map();
        let lo = sm.lookup_char_pos(sp.source_callsite().lo());
        format!("{}", lo.file.name.prefer_local_unconditionally())
    }

    fn generics_preds(&self, did: DefId) -> J {
        let preds = self.tcx.predicates_of(did).instantiate_identity(self.tcx);
        let mut v = Vec::new();
        for (p, _) in preds.into_iter() {
            let p = p.skip_normalization();
            v.push(J::s(with_no_trimmed_paths!(p.to_string())));
        }
        J::Arr(v)
    }

    fn dump_adt(&mut self, did: LocalDefId) -> J {
        let tcx = self.tcx;
        let adt = tcx.adt_def(did);
        let self_ty = tcx.type_of(did).instantiate_identity().skip_normalization();
        let env = TypingEnv::post_analysis(tcx, did);
        let mut fields = Vec::new();
        for v in adt.variants() {
            for f in v.fields.iter() {
                let fty = tcx.type_of(f.did).instantiate_identity().skip_normalization();
                fields.push(J::Obj(vec![
                    ("variant", J::s(v.name.to_string())),
                    ("name", J::s(f.name.to_string())),
                    ("ty", J::s(self.note_ty(fty))),
                    ("pub", J::Bool(f.vis.is_public())),
                    ("freeze", J::Bool(fty.is_freeze(tcx, env))),
                ]));
            }
        }
        J::Obj(vec![
            ("path", J::s(self.path(did.to_def_id()))),
            ("ty", J::s(tystr(self_ty))),
            ("kind", J::s(format!("{:?}", adt.adt_kind()))),
            ("fields", J::Arr(fields)),
            ("freeze_generic", J::Bool(self_ty.is_freeze(tcx, env))),
            ("file", J::s(self.file(tcx.def_span(did)))),
            ("span", self.span(tcx.def_span(did))),
        ])
    }

    fn dump_impl(&mut self, did: LocalDefId, imp: &hir::Impl<'tcx>) -> J {
        let tcx = self.tcx;
        let self_ty = tcx.type_of(did).instantiate_identity().skip_normalization();
        let st = self.note_ty(self_ty);
        let tr = if imp.of_trait.is_some() {
            let t = tcx.impl_trait_ref(did).instantiate_identity().skip_normalization();
            Some((
                J::s(with_no_trimmed_paths!(t.to_string())),
                J::s(self.path(t.def_id)),
                J::Arr(t.args.iter().map(|a| J::s(with_no_trimmed_paths!(a.to_string()))).collect()),
            ))
        } else {
            None
        };
        let items: Vec<J> = imp
            .items
            .iter()
            .map(|it| J::s(self.path(it.owner_id.def_id.to_def_id())))
            .collect();
        let (trs, trp, tra) = match tr {
            Some((a, b, c)) => (a, b, c),
            None => (J::Null, J::Null, J::Null),
        };
        J::Obj(vec![
            ("self_ty", J::s(st)),
            ("trait_ref", trs),
            ("trait", trp),
            ("trait_args", tra),
            ("preds", self.generics_preds(did.to_def_id())),
            ("items", J::Arr(items)),
            ("derived", J::Bool(tcx.is_automatically_derived(did.to_def_id()))),
            ("file", J::s(self.file(tcx.def_span(did)))),
            ("span", self.span(tcx.def_span(did))),
        ])
    }

    fn dump_owner(&mut self, def_id: LocalDefId, dk: DefKind) -> J {
        let tcx = self.tcx;
        let body = tcx.hir_body_owned_by(def_id);
        let tr = tcx.typeck(def_id);
        let did = def_id.to_def_id();
        let mut o: Vec<(&'static str, J)> = Vec::new();
        o.push(("path", J::s(self.path(did))));
        o.push(("kind", J::s(format!("{:?}", dk))));
        o.push(("file", J::s(self.file(tcx.def_span(def_id)))));
        o.push(("span", self.span(tcx.hir_span(tcx.local_def_id_to_hir_id(def_id)))));
        if matches!(dk, DefKind::Fn | DefKind::AssocFn) {
            o.push(("pub", J::Bool(tcx.visibility(did).is_public())));
            let sig = tcx.fn_sig(did).instantiate_identity().skip_normalization().skip_binder();
            let ins: Vec<J> = sig.inputs().iter().map(|t| J::s(self.note_ty(*t))).collect();
            o.push(("inputs", J::Arr(ins)));
            o.push(("output", J::s(self.note_ty(sig.output()))));
            o.push(("unsafe", J::Bool(!sig.safety().is_safe())));
            o.push(("name", J::s(tcx.item_name(did).to_string())));
        }
        if matches!(dk, DefKind::AssocFn | DefKind::AssocConst { .. }) {
            let parent = tcx.parent(did);
            if let DefKind::Impl { of_trait } = tcx.def_kind(parent) {
                let self_ty = tcx.type_of(parent).instantiate_identity().skip_normalization();
                o.push(("impl_self", J::s(self.note_ty(self_ty))));
                if of_trait {
                    let t = tcx.impl_trait_ref(parent).instantiate_identity().skip_normalization();
                    o.push(("impl_trait_ref", J::s(with_no_trimmed_paths!(t.to_string()))));
                    o.push(("impl_trait", J::s(self.path(t.def_id))));
                    o.push((
                        "impl_trait_args",
                        J::Arr(t.args.iter().map(|a| J::s(with_no_trimmed_paths!(a.to_string()))).collect()),
                    ));
                }
                o.push(("impl_preds", self.generics_preds(parent)));
                o.push(("derived", J::Bool(tcx.is_automatically_derived(parent))));
                o.push(("impl_span", self.span(tcx.def_span(parent))));
            }
        }
        if matches!(dk, DefKind::Fn | DefKind::AssocFn) {
            o.push(("preds", self.generics_preds(did)));
        }
        let env = TypingEnv::post_analysis(tcx, def_id);
        let mut cx = BodyCx { d: self, tr, owner: def_id, env };
        let params: Vec<J> = body.params.iter().map(|p| cx.pat(p.pat)).collect();
        let val = cx.expr(body.value, None);
        o.push(("params", J::Arr(params)));
        o.push(("body", val));
        J::Obj(o)
    }
}

fn macro_stack(sp: Span) -> Vec<String> {
    // outermost-last list of bang-macro names this span is expanded from
    let mut v = Vec::new();
    for ed in sp.macro_backtrace() {
        if let ExpnKind::Macro(_, name) = ed.kind {
            v.push(name.to_string());
        }
    }
    v
}

impl<'a, 'tcx> BodyCx<'a, 'tcx> {
    fn tcx(&self) -> TyCtxt<'tcx> {
        self.d.tcx
    }

    fn callee(&mut self, def_id: DefId, args: GenericArgsRef<'tcx>, o: &mut Vec<(&'static str, J)>) {
        let tcx = self.tcx();
        o.push(("fn", J::s(self.d.path(def_id))));
        o.push(("fnargs", J::s(with_no_trimmed_paths!(tcx.def_path_str_with_args(def_id, args)))));
        let targs: Vec<J> = args.iter().map(|a| J::s(with_no_trimmed_paths!(a.to_string()))).collect();
        o.push(("targs", J::Arr(targs)));
        o.push(("fn_local", J::Bool(def_id.is_local())));
        // try to resolve trait methods to the implementing item
        if matches!(tcx.def_kind(def_id), DefKind::AssocFn | DefKind::Fn) && !args.has_infer() {
            let args = tcx.erase_and_anonymize_regions(args);
            if let Ok(Some(inst)) = ty::Instance::try_resolve(tcx, self.env, def_id, args) {
                let rid = inst.def_id();
                if rid != def_id {
                    if let ty::InstanceKind::Item(_) = inst.def {
                        o.push(("impl", J::s(self.d.path(rid))));
                        o.push(("impl_local", J::Bool(rid.is_local())));
                    } else {
                        o.push(("impl", J::s(format!("{:?}", inst.def))));
                    }
                }
            }
        }
    }

    fn res(&mut self, qpath: &QPath<'tcx>, hir_id: hir::HirId, o: &mut Vec<(&'static str, J)>) {
        let res = self.tr.qpath_res(qpath, hir_id);
        match res {
            Res::Local(id) => {
                o.push(("k", J::s("Local")));
                o.push(("v", J::Int(id.local_id.as_u32() as i64)));
                o.push(("name", J::s(self.tcx().hir_name(id).to_string())));
            }
            Res::Def(dk, did) => {
                o.push(("k", J::s("Def")));
                o.push(("dk", J::s(format!("{:?}", dk))));
                let args = self.tr.node_args(hir_id);
                match dk {
                    DefKind::Fn | DefKind::AssocFn | DefKind::AssocConst { .. } | DefKind::Const { .. } | DefKind::Ctor(..) => {
                        self.callee(did, args, o);
                    }
                    _ => {
                        o.push(("fn", J::s(self.d.path(did))));
                    }
                }
            }
            Res::SelfCtor(did) => {
                o.push(("k", J::s("Def")));
                o.push(("dk", J::s("SelfCtor")));
                o.push(("fn", J::s(self.d.path(did))));
            }
            other => {
                o.push(("k", J::s("Def")));
                o.push(("dk", J::s(format!("{:?}", other))));
            }
        }
    }

    fn pat(&mut self, p: &Pat<'tcx>) -> J {
        let mut o: Vec<(&'static str, J)> = Vec::new();
        let ty = self.tr.node_type_opt(p.hir_id);
        match p.kind {
            PatKind::Wild => o.push(("k", J::s("Wild"))),
            PatKind::Binding(mode, id, ident, sub) => {
                o.push(("k", J::s("Bind")));
                o.push(("v", J::Int(id.local_id.as_u32() as i64)));
                o.push(("name", J::s(ident.name.to_string())));
                o.push(("mut", J::Bool(matches!(mode.1, hir::Mutability::Mut))));
                o.push(("byref", J::Bool(!matches!(mode.0, hir::ByRef::No))));
                if let Some(s) = sub {
                    o.push(("sub", self.pat(s)));
                }
            }
            PatKind::Tuple(ps, _) => {
                o.push(("k", J::s("Tuple")));
                o.push(("ps", J::Arr(ps.iter().map(|x| self.pat(x)).collect())));
            }
            PatKind::TupleStruct(ref qp, ps, _) => {
                o.push(("k", J::s("TupleStruct")));
                let res = self.tr.qpath_res(qp, p.hir_id);
                if let Some(d) = res.opt_def_id() {
                    o.push(("path", J::s(self.d.path(d))));
                }
                o.push(("ps", J::Arr(ps.iter().map(|x| self.pat(x)).collect())));
            }
            PatKind::Struct(ref qp, fs, _) => {
                o.push(("k", J::s("Struct")));
                let res = self.tr.qpath_res(qp, p.hir_id);
                if let Some(d) = res.opt_def_id() {
                    o.push(("path", J::s(self.d.path(d))));
                }
                let v: Vec<J> = fs
                    .iter()
                    .map(|f| J::Obj(vec![("name", J::s(f.ident.name.to_string())), ("pat", self.pat(f.pat))]))
                    .collect();
                o.push(("fields", J::Arr(v)));
            }
            PatKind::Ref(inner, ..) | PatKind::Box(inner) | PatKind::Deref(inner) => {
                o.push(("k", J::s("Ref")));
                o.push(("p", self.pat(inner)));
            }
            PatKind::Expr(pe) => {
                o.push(("k", J::s("PatExpr")));
                match pe.kind {
                    hir::PatExprKind::Lit { lit, negated } => {
                        o.push(("lit", J::s(format!("{}{}", if negated { "-" } else { "" }, lit_str(&lit)))));
                    }
                    hir::PatExprKind::Path(ref qp) => {
                        let res = self.tr.qpath_res(qp, pe.hir_id);
                        if let Some(d) = res.opt_def_id() {
                            o.push(("path", J::s(self.d.path(d))));
                        }
                    }
                }
            }
            PatKind::Or(ps) => {
                o.push(("k", J::s("Or")));
                o.push(("ps", J::Arr(ps.iter().map(|x| self.pat(x)).collect())));
            }
            _ => {
                o.push(("k", J::s("Other")));
                o.push(("dbg", J::s(format!("{:?}", std::mem::discriminant(&p.kind)))));
            }
        }
        if let Some(t) = ty {
            o.push(("ty", J::s(self.d.note_ty(t))));
        }
        J::Obj(o)
    }

    fn block(&mut self, b: &hir::Block<'tcx>, pm: Option<usize>) -> J {
        if let hir::BlockCheckMode::UnsafeBlock(hir::UnsafeSource::UserProvided) = b.rules {
            self.d.unsafe_blocks += 1;
        }
        let mut stmts = Vec::new();
        for s in b.stmts {
            match s.kind {
                StmtKind::Let(l) => {
                    let mut o: Vec<(&'static str, J)> = vec![("k", J::s("Let")), ("pat", self.pat(l.pat))];
                    if let Some(i) = l.init {
                        o.push(("init", self.expr(i, pm)));
                    }
                    if let Some(e) = l.els {
                        o.push(("els", self.block(e, pm)));
                    }
                    o.push(("sp", self.d.span(s.span)));
                    stmts.push(J::Obj(o));
                }
                StmtKind::Expr(e) => {
                    stmts.push(J::Obj(vec![("k", J::s("Expr")), ("e", self.expr(e, pm)), ("sp", self.d.span(s.span))]));
                }
                StmtKind::Semi(e) => {
                    stmts.push(J::Obj(vec![("k", J::s("Semi")), ("e", self.expr(e, pm)), ("sp", self.d.span(s.span))]));
                }
                StmtKind::Item(_) => {}
            }
        }
        let mut o: Vec<(&'static str, J)> = vec![("k", J::s("Block")), ("stmts", J::Arr(stmts))];
        if let Some(e) = b.expr {
            o.push(("expr", self.expr(e, pm)));
        }
        if !matches!(b.rules, hir::BlockCheckMode::DefaultBlock) {
            o.push(("unsafe", J::Bool(true)));
        }
        J::Obj(o)
    }

    // `pm` = macro-stack depth of the parent (to mark where a macro expansion is entered)
    fn expr(&mut self, e: &Expr<'tcx>, pm: Option<usize>) -> J {
        let tcx = self.tcx();
        let mut o: Vec<(&'static str, J)> = Vec::new();
        let ms = macro_stack(e.span);
        let depth = ms.len();
        let parent_depth = pm.unwrap_or(0);
        let cm = Some(depth);

        // transparent wrappers
        if let ExprKind::DropTemps(inner) = e.kind {
            return self.expr(inner, pm);
        }
        if let ExprKind::Use(inner, _) = e.kind {
            return self.expr(inner, pm);
        }

        // re-sugar `for`
        if let ExprKind::Match(scrut, arms, MatchSource::ForLoopDesugar) = e.kind {
            if let ExprKind::Call(_, [head]) = scrut.kind {
                if let [arm] = arms {
                    if let ExprKind::Loop(lb, _, LoopSource::ForLoop, _) = arm.body.kind {
                        if let [st] = lb.stmts {
                            if let StmtKind::Expr(me) = st.kind {
                                if let ExprKind::Match(_, [_none, some], MatchSource::ForLoopDesugar) = me.kind {
                                    let pat = match some.pat.kind {
                                        PatKind::TupleStruct(_, [p], _) => self.pat(p),
                                        PatKind::Struct(_, [f], _) => self.pat(f.pat),
                                        _ => self.pat(some.pat),
                                    };
                                    o.push(("k", J::s("For")));
                                    o.push(("pat", pat));
                                    o.push(("iter", self.expr(head, cm)));
                                    o.push(("body", self.expr(some.body, cm)));
                                    o.push(("id", J::Int(e.hir_id.local_id.as_u32() as i64)));
                                    o.push(("ty", J::s("()")));
                                    o.push(("sp", self.d.span(e.span)));
                                    return J::Obj(o);
                                }
                            }
                        }
                    }
                }
            }
        }
        // re-sugar `while`
        if let ExprKind::Loop(lb, _, LoopSource::While, _) = e.kind {
            if let Some(ie) = lb.expr {
                if let ExprKind::If(cond, then, Some(_)) = ie.kind {
                    o.push(("k", J::s("While")));
                    o.push(("cond", self.expr(cond, cm)));
                    o.push(("body", self.expr(then, cm)));
                    o.push(("id", J::Int(e.hir_id.local_id.as_u32() as i64)));
                    o.push(("ty", J::s("()")));
                    o.push(("sp", self.d.span(e.span)));
                    return J::Obj(o);
                }
            }
        }
        // re-sugar `?`
        if let ExprKind::Match(scrut, _, MatchSource::TryDesugar(_)) = e.kind {
            if let ExprKind::Call(_, [inner]) = scrut.kind {
                o.push(("k", J::s("Try")));
                o.push(("e", self.expr(inner, cm)));
                o.push(("id", J::Int(e.hir_id.local_id.as_u32() as i64)));
                o.push(("ty", J::s(self.d.note_ty(self.tr.expr_ty(e)))));
                o.push(("sp", self.d.span(e.span)));
                return J::Obj(o);
            }
        }

        match e.kind {
            ExprKind::Lit(lit) => {
                o.push(("k", J::s("Lit")));
                o.push(("v", J::s(lit_str(&lit))));
            }
            ExprKind::Path(ref qp) => {
                self.res(qp, e.hir_id, &mut o);
            }
            ExprKind::Call(f, args) => {
                // a..=b
                let mut done = false;
                if let ExprKind::Path(ref qp) = f.kind {
                    let res = self.tr.qpath_res(qp, f.hir_id);
                    if let Res::Def(_, did) = res {
                        if tcx.is_lang_item(did, hir::LangItem::RangeInclusiveNew) && args.len() == 2 {
                            o.push(("k", J::s("Range")));
                            o.push(("lo", self.expr(&args[0], cm)));
                            o.push(("hi", self.expr(&args[1], cm)));
                            o.push(("incl", J::Bool(true)));
                            done = true;
                        }
                    }
                }
                if !done {
                    o.push(("k", J::s("Call")));
                    o.push(("f", self.expr(f, cm)));
                    o.push(("args", J::Arr(args.iter().map(|a| self.expr(a, cm)).collect())));
                }
            }
            ExprKind::MethodCall(seg, recv, args, _) => {
                o.push(("k", J::s("MethodCall")));
                o.push(("name", J::s(seg.ident.name.to_string())));
                if let Some(did) = self.tr.type_dependent_def_id(e.hir_id) {
                    let a = self.tr.node_args(e.hir_id);
                    self.callee(did, a, &mut o);
                }
                o.push(("recv", self.expr(recv, cm)));
                o.push(("args", J::Arr(args.iter().map(|a| self.expr(a, cm)).collect())));
            }
            ExprKind::Tup(es) => {
                o.push(("k", J::s("Tup")));
                o.push(("es", J::Arr(es.iter().map(|a| self.expr(a, cm)).collect())));
            }
            ExprKind::Array(es) => {
                o.push(("k", J::s("Array")));
                o.push(("es", J::Arr(es.iter().map(|a| self.expr(a, cm)).collect())));
            }
            ExprKind::Binary(op, l, r) => {
                o.push(("k", J::s("Binary")));
                o.push(("op", J::s(op.node.as_str())));
                if self.tr.is_method_call(e) {
                    if let Some(did) = self.tr.type_dependent_def_id(e.hir_id) {
                        let a = self.tr.node_args(e.hir_id);
                        self.callee(did, a, &mut o);
                    }
                }
                o.push(("l", self.expr(l, cm)));
                o.push(("r", self.expr(r, cm)));
            }
            ExprKind::Unary(op, x) => {
                o.push(("k", J::s("Unary")));
                o.push(("op", J::s(op.as_str())));
                if self.tr.is_method_call(e) {
                    if let Some(did) = self.tr.type_dependent_def_id(e.hir_id) {
                        let a = self.tr.node_args(e.hir_id);
                        self.callee(did, a, &mut o);
                    }
                }
                o.push(("e", self.expr(x, cm)));
            }
            ExprKind::Cast(x, _) => {
                o.push(("k", J::s("Cast")));
                o.push(("e", self.expr(x, cm)));
            }
            ExprKind::Type(x, _) => {
                return self.expr(x, pm);
            }
            ExprKind::Let(l) => {
                o.push(("k", J::s("LetCond")));
                o.push(("pat", self.pat(l.pat)));
                o.push(("init", self.expr(l.init, cm)));
            }
            ExprKind::If(c, t, el) => {
                o.push(("k", J::s("If")));
                o.push(("cond", self.expr(c, cm)));
                o.push(("then", self.expr(t, cm)));
                if let Some(x) = el {
                    o.push(("else", self.expr(x, cm)));
                }
            }
            ExprKind::Loop(b, _, src, _) => {
                o.push(("k", J::s("Loop")));
                o.push(("src", J::s(format!("{:?}", src))));
                o.push(("body", self.block(b, cm)));
            }
            ExprKind::Match(scrut, arms, src) => {
                o.push(("k", J::s("Match")));
                o.push(("src", J::s(format!("{:?}", src))));
                o.push(("scrut", self.expr(scrut, cm)));
                let mut av = Vec::new();
                for arm in arms {
                    let mut ao: Vec<(&'static str, J)> = vec![("pat", self.pat(arm.pat))];
                    if let Some(g) = arm.guard {
                        ao.push(("guard", self.expr(g, cm)));
                    }
                    ao.push(("body", self.expr(arm.body, cm)));
                    av.push(J::Obj(ao));
                }
                o.push(("arms", J::Arr(av)));
            }
            ExprKind::Closure(c) => {
                o.push(("k", J::s("Closure")));
                let body = tcx.hir_body(c.body);
                o.push(("params", J::Arr(body.params.iter().map(|p| self.pat(p.pat)).collect())));
                let mut caps = Vec::new();
                for cp in self.tr.closure_min_captures_flattened(c.def_id) {
                    let kind = match cp.info.capture_kind {
                        ty::UpvarCapture::ByValue => "ByValue".to_string(),
                        ty::UpvarCapture::ByUse => "ByUse".to_string(),
                        ty::UpvarCapture::ByRef(bk) => format!("ByRef({:?})", bk),
                    };
                    let root = match cp.place.base {
                        rustc_middle::hir::place::PlaceBase::Upvar(up) => up.var_path.hir_id.local_id.as_u32() as i64,
                        _ => -1,
                    };
                    caps.push(J::Obj(vec![
                        ("place", J::s(cp.to_string(tcx))),
                        ("var", J::s(cp.var_ident.name.to_string())),
                        ("v", J::Int(root)),
                        ("mode", J::s(kind)),
                        ("ty", J::s(self.d.note_ty(cp.place.ty()))),
                    ]));
                }
                o.push(("captures", J::Arr(caps)));
                o.push(("move", J::Bool(matches!(c.capture_clause, hir::CaptureBy::Value { .. }))));
                o.push(("body", self.expr(body.value, cm)));
            }
            ExprKind::Block(b, _) => {
                let j = self.block(b, cm);
                if let J::Obj(v) = j {
                    o = v;
                }
            }
            ExprKind::Assign(l, r, _) => {
                o.push(("k", J::s("Assign")));
                o.push(("l", self.expr(l, cm)));
                o.push(("r", self.expr(r, cm)));
            }
            ExprKind::AssignOp(op, l, r) => {
                o.push(("k", J::s("AssignOp")));
                o.push(("op", J::s(op.node.as_str())));
                if self.tr.is_method_call(e) {
                    if let Some(did) = self.tr.type_dependent_def_id(e.hir_id) {
                        let a = self.tr.node_args(e.hir_id);
                        self.callee(did, a, &mut o);
                    }
                }
                o.push(("l", self.expr(l, cm)));
                o.push(("r", self.expr(r, cm)));
            }
            ExprKind::Field(x, ident) => {
                o.push(("k", J::s("Field")));
                o.push(("name", J::s(ident.name.to_string())));
                o.push(("e", self.expr(x, cm)));
            }
            ExprKind::Index(b, i, _) => {
                o.push(("k", J::s("Index")));
                if self.tr.is_method_call(e) {
                    if let Some(did) = self.tr.type_dependent_def_id(e.hir_id) {
                        let a = self.tr.node_args(e.hir_id);
                        self.callee(did, a, &mut o);
                    }
                }
                o.push(("base", self.expr(b, cm)));
                o.push(("idx", self.expr(i, cm)));
            }
            ExprKind::AddrOf(_, m, x) => {
                o.push(("k", J::s("AddrOf")));
                o.push(("mut", J::Bool(matches!(m, hir::Mutability::Mut))));
                o.push(("e", self.expr(x, cm)));
            }
            ExprKind::Break(_, x) => {
                o.push(("k", J::s("Break")));
                if let Some(x) = x {
                    o.push(("e", self.expr(x, cm)));
                }
            }
            ExprKind::Continue(_) => {
                o.push(("k", J::s("Continue")));
            }
            ExprKind::Ret(x) => {
                o.push(("k", J::s("Ret")));
                if let Some(x) = x {
                    o.push(("e", self.expr(x, cm)));
                }
            }
            ExprKind::Struct(qp, fields, tail) => {
                let res = self.tr.qpath_res(qp, e.hir_id);
                let did = res.opt_def_id();
                let is_range = did.map_or(false, |d| {
                    tcx.is_lang_item(d, hir::LangItem::Range) || tcx.is_lang_item(d, hir::LangItem::RangeCopy)
                });
                if is_range && fields.len() == 2 {
                    o.push(("k", J::s("Range")));
                    for f in fields {
                        let key = if f.ident.name.as_str() == "start" { "lo" } else { "hi" };
                        o.push((key, self.expr(f.expr, cm)));
                    }
                    o.push(("incl", J::Bool(false)));
                } else {
                    o.push(("k", J::s("Struct")));
                    if let Some(d) = did {
                        o.push(("path", J::s(self.d.path(d))));
                    }
                    let fv: Vec<J> = fields
                        .iter()
                        .map(|f| {
                            J::Obj(vec![
                                ("name", J::s(f.ident.name.to_string())),
                                ("shorthand", J::Bool(f.is_shorthand)),
                                ("e", self.expr(f.expr, cm)),
                            ])
                        })
                        .collect();
                    o.push(("fields", J::Arr(fv)));
                    if let hir::StructTailExpr::Base(b) = tail {
                        o.push(("base", self.expr(b, cm)));
                    }
                }
            }
            ExprKind::Repeat(x, _) => {
                o.push(("k", J::s("Repeat")));
                o.push(("e", self.expr(x, cm)));
            }
            ExprKind::ConstBlock(_) => {
                o.push(("k", J::s("ConstBlock")));
            }
            ExprKind::InlineAsm(_) => {
                o.push(("k", J::s("InlineAsm")));
                self.d.unsafe_blocks += 1;
            }
            _ => {
                o.push(("k", J::s("Other")));
                o.push(("dbg", J::s(format!("{:?}", std::mem::discriminant(&e.kind)))));
            }
        }
        o.push(("id", J::Int(e.hir_id.local_id.as_u32() as i64)));
        let t = self.tr.expr_ty(e);
        let ts = self.d.note_ty(t);
        let ta = self.tr.expr_ty_adjusted(e);
        if ta != t {
            o.push(("adj", J::s(self.d.note_ty(ta))));
        }
        o.push(("ty", J::s(ts)));
        o.push(("sp", self.d.span(e.span)));
        if depth > parent_depth {
            // entering a macro expansion: record the outermost newly-entered macro
            let name = ms[depth - parent_depth - 1].clone();
            o.push(("m", J::s(name)));
        }
        if depth > 0 {
            o.push(("x", J::Int(depth as i64)));
        }
        let _ = self.owner;
        J::Obj(o)
    }
}

fn lit_str(lit: &hir::Lit) -> String {
    use rustc_ast::ast::LitKind;
    match lit.node {
        LitKind::Str(s, _) => format!("{:?}", s.as_str()),
        LitKind::Int(v, _) => format!("{}", v.get()),
        LitKind::Float(s, _) => s.to_string(),
        LitKind::Bool(b) => format!("{}", b),
        LitKind::Char(c) => format!("{:?}", c),
        LitKind::Byte(b) => format!("{}", b),
        // byte strings (the template of a lowered format_args!): "b:" + hex
        LitKind::ByteStr(ref b, _) => {
            let mut s = String::from("b:");
            for x in b.as_byte_str().iter() { s.push_str(&format!("{:02x}", x)); }
            s
        }
        _ => "?".to_string(),
    }
}
