#!/usr/bin/env python3
"""Measure false alarms: apply behaviour-preserving refactorings (written by independent agents that saw nothing of
/verif) to a scratch worktree of /repo and run ALL 20 checks on the result.  Any VIOLATION is a false alarm.

usage: eval_neutral.py <scratch_worktree> <dir-with-nK/patch.diff> [...]      (prints one line per patch)
"""
import json
import os
import re
import subprocess
import sys
import tempfile

VERIF = os.path.dirname(os.path.dirname(os.path.abspath(__file__)))
sys.path.insert(0, VERIF)
from rules import pdb as pdbmod  # noqa: E402


def sh(cmd, cwd):
    r = subprocess.run(cmd, cwd=cwd, shell=True, capture_output=True, text=True)
    return r.returncode, r.stdout + r.stderr


def main():
    wt = sys.argv[1]
    out = []
    for d in sys.argv[2:]:
        for k in sorted(os.listdir(d)):
            patch = os.path.join(d, k, "patch.diff")
            if not os.path.exists(patch):
                continue
            sh("git checkout -- . && git clean -fdq src", wt)
            rc, o = sh("git apply --whitespace=nowarn %s" % patch, wt)
            rec = {"patch": patch}
            if rc != 0:
                rec["error"] = "does not apply: " + o[-200:]
                out.append(rec)
                print(json.dumps(rec), flush=True)
                continue
            try:
                dd, info = pdbmod.build_pdb(repo=wt)
            except pdbmod.PdbError as e:
                rec["error"] = "pdb: " + str(e)[-300:]
                out.append(rec)
                print(json.dumps(rec), flush=True)
                continue
            tmp = tempfile.NamedTemporaryFile("w", suffix=".json", delete=False)
            json.dump(dd, tmp)
            tmp.close()
            alarms = {}
            procs = {}
            for i in range(1, 21):
                p = "C%02d" % i
                procs[p] = subprocess.Popen([os.path.join(VERIF, "check"), p, "--pdb", tmp.name, "--no-evidence"], stdout=subprocess.PIPE, stderr=subprocess.STDOUT, text=True)
            for p, pr in procs.items():
                o, _ = pr.communicate()
                keys = re.findall(r"\[(C\d\d/[^\]]+)\]\s*$", "\n".join(l for l in o.splitlines() if not l.startswith("KNOWN-FINDING")), re.M)
                if pr.returncode != 0:
                    alarms[p] = keys[:6] or [o[-300:]]
            os.unlink(tmp.name)
            rec["alarms"] = alarms
            out.append(rec)
            print(json.dumps(rec), flush=True)
            sh("git checkout -- . && git clean -fdq src", wt)
    return 0


if __name__ == "__main__":
    sys.exit(main())
