#!/usr/bin/env python3
"""Re-confirm stored external mutants after /repo moved (a fix: commit changes the code a mutant was written against).

usage: revalidate_seeded.py <name>...     (names under /verif/seeded)

For each mutant, in a scratch worktree of /repo HEAD (outside /repo and /verif, removed afterwards):
  apply patch.diff (falling back to a 3-way merge); the existing suite must pass with it; demo.rs must FAIL with it and
  PASS without it.  Prints one JSON line per mutant: {"name", "applies", "suite", "demo_with", "demo_without"}.
Nothing is written under /verif: the caller decides what to do with a mutant that no longer breaks its property.
"""
import json
import os
import queue
import subprocess
import sys
from concurrent.futures import ThreadPoolExecutor

VERIF = os.path.dirname(os.path.dirname(os.path.abspath(__file__)))
N = 6


def sh(cmd, cwd=None, timeout=1800):
    env = dict(os.environ, CARGO_NET_OFFLINE="true")
    r = subprocess.run(cmd, cwd=cwd, shell=True, capture_output=True, text=True, timeout=timeout, env=env)
    return r.returncode, r.stdout + r.stderr


def main():
    names = sys.argv[1:]
    q = queue.Queue()
    wts = []
    for i in range(N):
        wt = "/tmp/reval-wt%d" % i
        sh("git -C /repo worktree remove --force %s" % wt)
        rc, o = sh("git -C /repo worktree add --detach %s HEAD" % wt)
        if rc != 0:
            print(o)
            return 1
        wts.append(wt)
        q.put(wt)

    def one(n):
        wt = q.get()
        try:
            d = os.path.join(VERIF, "seeded", n)
            out = {"name": n}
            sh("git reset -q --hard HEAD && git clean -fdq src tests", wt)
            rc, o = sh("git apply --whitespace=nowarn %s/patch.diff" % d, wt)
            if rc != 0:
                rc, o = sh("git apply --3way --whitespace=nowarn %s/patch.diff" % d, wt)
                if rc != 0 or sh("grep -rlq '^<<<<<<<' src", wt)[0] == 0:
                    out["applies"] = False
                    return out
            out["applies"] = True
            rc, o = sh("cargo test --offline --no-fail-fast 2>&1 | grep -E '^test result'", wt)
            out["suite"] = "236 passed; 0 failed" in o
            sh("cp %s/demo.rs tests/demo_eval.rs" % d, wt)
            rc, o = sh("cargo test --offline --test demo_eval 2>&1 | tail -5", wt)
            out["demo_with"] = "pass" if "test result: ok" in o else ("fail" if "FAILED" in o or "failed" in o else "error: " + o[-200:])
            sh("git checkout -q -- src", wt)
            sh("git reset -q HEAD -- src; git checkout -q -- src", wt)
            rc, o = sh("cargo test --offline --test demo_eval 2>&1 | tail -5", wt)
            out["demo_without"] = "pass" if "test result: ok" in o else ("fail" if "FAILED" in o or "failed" in o else "error: " + o[-200:])
            return out
        finally:
            sh("git reset -q --hard HEAD && git clean -fdq src tests", wt)
            q.put(wt)
    with ThreadPoolExecutor(N) as ex:
        for r in ex.map(one, names):
            print(json.dumps(r), flush=True)
    for wt in wts:
        sh("git -C /repo worktree remove --force %s" % wt)
    return 0


if __name__ == "__main__":
    sys.exit(main())
