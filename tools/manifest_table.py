"""Per-property manifest entries.  A property is listed in CHECKS only once its rules exist and pass on the tree."""

TECH = "static analysis: custom rules over the type-checked HIR (rustc_private driver) — "

CHECKS = {
    "C20": {
        "text": "For all inputs at once: every listed entry point has the mismatch-implies-panic guard (exact condition, right dimension, "
                "!=-form) ahead of every storage access, own or through the function it forwards to; every by-reference operand is a shared "
                "reference to Freeze data in a crate without unsafe (so it cannot be changed: a type-system proof); every consuming operator "
                "impl forwards to its borrowing counterpart in operand order; every Clone builds all fields from self and the types own their storage."
            " Node and variable-index arguments of the mesh cross-sections, integrals and apply are rejected by an entry guard, not only inside a loop that an empty axis never enters. The shape-bookkeeping rules of the other properties (constructors, resize, delete/transpose shape updates: families shape / edit / transpose-shape) are imported crate-wide: every shape check reads dimensions that some constructor or edit recorded.",
        "design_ref": "DESIGN.md §3 C20, Appendix A",
        "note": "Trusted: rustc's type checker / is_freeze / callee resolution, std's bounds checks for the Vec-forwarded methods, the rule engine. "
                "Element types assumed Freeze. Raw (i,j) index operators outside the claim as the property says. Decides guard structure, not run-time outcomes.",
        "technique": TECH + "guard dominance + dimension-exact reject table, effect/Freeze typing proof, delegation check",
    },
}

CHECKS["C03"] = {
    "text": "For all shapes at once: every dense-matrix operation has the definitional index discipline (no index bounded by one dimension "
            "is used against another: the rule that found the set_col defect), result shape, operand polarity (Sub: rhs negative, Div: scalar is the divisor), "
            "co-indexing, full 0..dim ranges, norm orientation, product construction (same column on both sides), transpose/swap/delete/resize "
            "index arithmetic, and consuming forms forward in operand order."
            " norm_p returns norm_max() for p = inf before the power-sum formula (whose value there is 1 for every matrix). Frame rule: every editing operation writes only the fields its definition changes (transitively through the `&mut self` methods it calls and through self[(i,j)]); an early return of norm_1 / norm_inf is the formula specialised (norm_max() only when the summed dimension is 1). The matrix product stores every column unconditionally; transpose_in_place has no return before any write.",
    "design_ref": "DESIGN.md §3 C03",
    "note": "Decides structure of each operation, not equality with a reference model over all values/histories (not decidable statically). "
            "Trusted: rustc typeck/callee resolution; the rule engine; Vec semantics (push/drain/clone).",
    "technique": TECH + "dimension-kind contradiction analysis (Engler-style), polarity/co-index/full-range templates, per-operation definitional patterns",
}

CHECKS["C13"] = {
    "category": "other",
    "text": "Proof-style obligations on single-path arithmetic bodies: each of the 14 operator/identity bodies equals the field formula as a rational "
            "function over Q (exact field arithmetic for exact element types); each of the 8 compound-assignment bodies, expanded statement by statement, "
            "is the same expression tree as its binary form modulo commutativity of + and * only (hence bit-identical IEEE results); no stale read of an "
            "overwritten component; eq is the component conjunction, partial_cmp is lexicographic and neither impl overrides a derived operator; abs = sqrt(abs_sqr), arg = atan2(imag, real). No local trait implemented for Complex has a by-value method with the name of an inherent &self method (it would shadow it wherever the trait is in scope); the comparison traits define only their required method.",
    "design_ref": "DESIGN.md §3 C13",
    "note": "Trait calls on T are interpreted as ring operations. Not decided: rounding-error size over f64, trichotomy/transitivity on NaN-free values "
            "(properties of f64's own ordering). Trusted: rustc typeck, the rule engine's symbolic executor and polynomial normal form.",
    "technique": TECH + "value numbering of straight-line bodies + polynomial/commutative normal-form comparison",
}
CHECKS["C16"] = {
    "text": "For every (len, T>=1): the chunk bounds extracted from dot_f64 satisfy start_0 = 0, end_i = start_(i+1), end_(T-1) = len as polynomial "
            "identities (the chunks tile 0..len exactly once); both operands use the same window; the worker closure captures only &[f64], calls only "
            "slice len/index and f64 arithmetic and returns by value (no unsafe in the crate: schedule-free); handles are joined in spawn order into one accumulator; "
            "sizes are compared first; T = num_cpus::get() is used unmodified. The function returns the joined sum itself (accumulator from 0.0, written only by the join loop, nothing post-processes it) and has no other way out than the empty-vector return (no fast path computing the value by another formula); the sequential reference Vector::dot satisfies C15's dot rule.",
    "design_ref": "DESIGN.md §3 C16",
    "note": "Trusted: num_cpus::get() >= 1, thread::scope joins all threads, (T-1)*floor(len/T) <= len. Not decided: the size of the re-association error.",
    "technique": TECH + "symbolic chunk-bound identities, closure capture modes from typeck, callee-set purity, ordered-reduction pattern",
}
CHECKS["C17"] = {
    "text": "For all six Newton variants, for every user function: &self receiver over Freeze state without unsafe (configuration and guess cannot change); "
            "no hidden state read; the only loop is for _ in 0..self.max_iter and every reachable loop is a bounded for with an acyclic call graph; "
            "closure call sites per iteration counted; the only Ok is inside the loop behind the stopping test and carries the iterate; success is decided on the size of the step applied in "
            "that iteration (|dx| or ||dx||_inf <= tol) in every variant — a residual test bounds the distance to the root only by tol/|f'| (finding 24); the fall-through "
            "is Err(current); the step is f/f' (central difference with self.delta) resp. the solve_basic solution with the Jacobian at current."
            " The norm of the system variants (norm_inf) ignores no component, NaN included.",
    "design_ref": "DESIGN.md §3 C17",
    "note": "Not decided: Ok => within O(tol) of the root (a theorem about Newton's method and floating point). Assumes a deterministic user closure.",
    "technique": TECH + "receiver/Freeze typing proof, loop-shape and call-graph termination analysis, control-dependence of Ok on the stopping test",
}

CHECKS["C01"] = {
    "text": "For all inputs: the structure that makes row exchanges effective — every ordered comparison of element values reachable from the solvers compares "
            "magnitudes; the pivot search is an arg-max over rows k..rows of the eliminated column; every matrix row exchange is mirrored on the right-hand side / "
            "permutation with the same pair; elimination applies one multiplier (pivot as divisor) to the matrix row and the rhs entry; P*b precedes the sweeps; "
            "forward sweep 0..i ascending, back substitution k+1..rows descending then division by the diagonal; index kinds consistent; every panic of the solvers and "
            "their helpers is guarded by shape comparisons (or an exactly-zero matrix element) only, never by a computed quantity such as a determinant.",
    "design_ref": "DESIGN.md §3 C01, §18",
    "note": "Decides pivoting/elimination/substitution structure only; backward error, exactness over rationals and agreement of the two solvers are not decidable statically.",
    "technique": TECH + "magnitude dataflow on PartialOrd comparisons, arg-max recognition, exchange/row-operation pairing, sweep-range analysis",
}
CHECKS["C02"] = {
    "text": "For all square inputs: determinant/inverse take &self over Freeze data and factorise a clone (self cannot change); the exchange counter is "
            "incremented by exactly one exactly where rows are exchanged; the sign follows the counter's parity; the product runs over the full diagonal of the "
            "factorised clone; every division reachable from determinant is dominated by a pivot-magnitude != 0 test (singular gives 0, not NaN); inverse has the forward/backward substitution shape on the permutation.",
    "design_ref": "DESIGN.md §3 C02",
    "note": "Equality with the exact determinant and A*inv(A)=I for every matrix, and rounding accuracy, are not decided statically.",
    "technique": TECH + "effect typing proof, counter/exchange pairing, guard-dominated divisor discipline, substitution-shape patterns",
}

CHECKS["C04"] = {
    "text": "For every n, m1, m2: Index/IndexMut share the in-band guard and the compact index (i, m1+j-i), proved in range from the negated guard; new/resize establish "
            "compact: n x (m1+m2+1) and the operators preserve it with the trait's operator; fill_band's guard entails its column; the matvec window provably never reads "
            "padding and indexes x by the true column; the pivot search compares magnitudes and is an arg-max; the row exchange, the sign flip and the recorded index are "
            "paired; det multiplies the sign by the full pivot column; solve replays the recorded exchanges and multipliers with the same offsets."
            " Every division in decompose is dominated by a test that the pivot differs from zero (a singular band has determinant 0, not NaN). resize updates the layout on every path (no early return skips it); det runs the factorisation unconditionally (no shortcut for some bandwidths); a whole-row swap_rows of the compact copy is accepted as the exchange. Every panic of decompose / solve / det is guarded by shape comparisons (or an exactly-zero pivot) only, never by a computed functional such as a determinant or a threshold on magnitudes. In solve the forward-substitution window starts at m1.",
    "design_ref": "DESIGN.md §3 C04",
    "note": "The initial left-shift/zero-fill is decided by resolving l as the induction variable m1 - i; the elimination window bound (l capped at n) is outside the linear prover; agreement with the dense result and backward error are numerical.",
    "technique": TECH + "single-fact linear entailment on index windows, magnitude/arg-max analysis, exchange/sign/index pairing, store/replay offset agreement",
}
CHECKS["C05"] = {
    "text": "For every n >= 1: Index/IndexMut implement one storage map; every assignment of convert and every product of the matrix-vector stencil agrees with that map; "
            "with the struct invariant (checked on the constructors) every index in det, convert and the product is proved in range — this is what exposes the n = 1 case; "
            "in solve every definition of the pivot is followed by a zero test that panics before any division by it; transpose swaps sub/sup; the determinant is the three-term recurrence; operators pair like diagonals. Every panic of solve / det is guarded by shape comparisons or an exactly-zero pivot only.",
    "design_ref": "DESIGN.md §3 C05",
    "note": "Domain n >= 1 as the property states. Exactness of solve and backward stability are numerical and not decided statically.",
    "technique": TECH + "storage-map agreement, armed single-fact bounds proofs under a struct invariant, def-guard-use divisor discipline, symbolic transpose/recurrence identities",
}

CHECKS["C06"] = {
    "text": "For every shape and pattern: all five traversals of the structure have the one compressed-column walk shape with val and row_index co-indexed; "
            "the row_index value is used only in row positions and the walk's column only in column positions; the constructors establish the length invariant "
            "(paired pushes per drained triplet, col_start of cols+1); col_start is the exclusive prefix sum of the per-column counts; col_index expands the gaps; "
            "get and insert share guards and membership test; insert overwrites the matching entry or rebuilds with the same shape; transpose allocates (cols, rows, nnz) and scatters consistently. from_triplets only reorders its input (nothing filters or de-duplicates the list); an early return of scale needs the factor to equal T::one(); transpose is accepted with a running total, a next-free-slot array or counters zeroed in place. No panic guard of from_vecs holds for two equal neighbouring entries of one array (equal consecutive column starts are an empty column). An early return of from_triplets hands back cols + 1 column starts.",
    "design_ref": "DESIGN.md §3 C06",
    "note": "from_vecs performs no validation (the property quantifies over well-formed raw arrays). Order-independence and equality with a reference model over all histories are not decided statically.",
    "technique": TECH + "walk-shape/co-indexing/role analysis over the three parallel arrays, paired-push and prefix-sum data-flow patterns, sibling agreement of get/insert",
}
CHECKS["C07"] = {
    "text": "For every rectangular shape: multiply scatters val[k]*x[j] into result[row_index[k]] under guard cols=len(x) with a rows-long result; transpose_multiply "
            "gathers val[k]*x[row_index[k]] into result[j] under guard rows=len(x) with a cols-long result; the explicit transpose has the C06 shape; scale covers every stored value. from_triplets keeps every triplet; an early return of scale needs the factor to equal T::one() (pure predicate methods such as is_one() are resolved to their comparison unless a local impl overrides the default).",
    "design_ref": "DESIGN.md §3 C07",
    "note": "Mixing row/column roles is a definite contradiction for every non-square shape (what the all-ones 5x5 test cannot see). Numerical equality with the dense product is not decided as a value statement.",
    "technique": TECH + "role-typed scatter/gather patterns on the compressed-column walk, guard/result-length agreement",
}

CHECKS["C08"] = {
    "text": "For all four Krylov solvers and every input: every `return Ok(..)` inside the main loop is control-dependent on `||b - A*x|| / normb <= tol` with the residual "
            "recomputed from x itself after the last write to x on that path (`NaN <= tol` is false, so a non-finite x is never reported as solved; only positive `<=`/`<` atoms count, "
            "so a NaN-unsafe early-continue spelling is reported); the Ok(0) before the loop is decided on the freshly computed initial residual; the divisor of every normalisation is ||b|| "
            "(or the norm of b's preconditioned copy) with the zero-norm repair; r starts as b - A x; the loop is budgeted by max_iter and Ok carries 0 or the counter; "
            "x is written only inside the loop; every other exit is Err.",
    "design_ref": "DESIGN.md §3 C08, Appendix B",
    "note": "Findings 23 (fixed in /repo 0036606): the solvers decided success on the recurrence residual alone. Since that repair the consistency of the recurrences is no longer a condition of "
            "this property (a wrong recurrence cannot produce a false Ok) and is decided under C09. Not decided: the rounding error of the one recomputation (eps*||A||*||x||).",
    "technique": TECH + "control-dependence (dominating positive comparison atoms) of every success exit on the recomputed residual, def-use ordering against writes to x, normaliser def-guard-use",
}
CHECKS["C09"] = {
    "text": "Necessary conditions of convergence plus the degenerate-start clause. (a) start-up: the divisor of every residual normalisation passes `if n == 0.0 { n = 1.0 }` before its first use, "
            "and before the loop the initial residual (or its identity-preconditioned copy) is tested against tol with Ok(0) returned and x untouched. (b) the recurrences are those of a residual that "
            "tracks the iterate: within one iteration x receives sum c_i P_i iff r receives -sum c_i A P_i (r + A x preserved, per first/later-iteration case, coefficients compared as polynomials over Q; "
            "QMR's s = A d discovered as an inductive image pair), and each in-loop success exit tests the residual of the x it returns. (c) every failure exit inside the loop is an exact zero test "
            "(no absolute threshold). (d) breakdown-freedom: every inner product evaluated in the loop is of a vector with itself (or, in CG, of p with A p — positive on the SPD class) and no norm of a "
            "left (A^T-generated) Lanczos vector is used: an inner product of two different vectors can vanish while the residual has not, and the recurrence then divides by it or gives up. "
            "CG has no such scalar; BiCG, BiCGSTAB and QMR have eight between them, each demonstrated on a strictly diagonally dominant system of order <= 4 (open findings, findings/c09-breakdown). "
            "(e) the method itself: the map `state at the top of an iteration -> next` (start-up values, first and later iteration) that drives x equals, as a rational function of the inner products "
            "and norms it evaluates, the map of our transcription of CG / BiCG / Bi-CGSTAB / QMR from Barrett et al., Templates (reference/krylov_ref.rs, frozen typed HIR), compared by colour "
            "refinement over the loop-carried variables with rational functions hashed at a point of GF(2^127-1) (polynomial identity testing on names; nothing is executed); every exact-zero "
            "failure exit tests a scalar, at a state of x, at which the published method stops too. The tolerance test guarding a success exit is made in every iteration; failure exits are exact-zero tests (no threshold, no sign test).",
    "design_ref": "DESIGN.md §3 C09, §7, §12, §14.2, §17",
    "note": "NOT decided (not applicable to static analysis): the rate of convergence (O(n) iterations) and agreement with the direct solution to tol*cond(A). The eight open findings are inherent to "
            "Lanczos-type methods without look-ahead/restart and are not a small patch; they are listed by exact key in known_findings.txt, so a ninth indefinite scalar is still reported.",
    "technique": TECH + "dataflow over a linear-combination abstract domain (values of the operands of every inner product / norm at evaluation time), def-guard-use pattern on the norm divisor, sibling start-up agreement, "
                        "sibling agreement with a reference transcription (iteration-map fingerprints by colour refinement + polynomial identity testing)",
}

CHECKS["C18"] = {
    "text": "For every m and n (including m < n and m > n), real and complex: the Jacobian is allocated m x n in that order; column i is stored for i over the full 0..n; "
            "the callee's range check bounds the column index by cols (the set_col defect made n > m panic); each iteration perturbs coordinate i by delta, evaluates, and "
            "restores the same coordinate EXACTLY — by assigning back a copy saved before the perturbation (or working on a fresh copy of the point), not by subtracting the step, which does not "
            "give back x when x + delta rounds (finding 22); the stored column is (f_new - f)/delta with f evaluated once at the unperturbed point; both siblings satisfy the same instances.",
    "design_ref": "DESIGN.md §3 C18",
    "note": "Exactness for affine maps on dyadic data and O(delta) accuracy are numerical and not decided statically.",
    "technique": TECH + "shape ties, perturb/restore pairing, quotient polarity, callee kind signature (index kinds)",
}

CHECKS["C10"] = {
    "text": "For every degree-n input: poly_solve returns a vector of length n on every path (zeros(degree), replaced only under degree==2/3 by helpers that allocate 2/3; "
            "the deflation loop writes every slot); the degree tests cover every usize with degree 0 rejected first; both roots() entry points copy all coefficients in order "
            "and forward refine; every reachable loop is a bounded for with an acyclic call graph (always returns); every complex division has a divisor that is a non-zero "
            "literal, a leading coefficient, dominated by a zero/magnitude test, or allow-listed by name with its reason (this found x^2 -> NaN); no numerical decision is taken "
            "by the lexicographic order of complex values (this found the Cardano sign defect: x^3 + 8i -> garbage); the triple-root shortcut needs d0 == 0 && d1 == 0; "
            "the snap-to-real test drops the component that was tested small; the Laguerre fallback step cannot vanish; polishing uses the undeflated "
            "coefficients; deflation is synthetic division; laguer stops iterating on scale-free tests only (no ordered comparison of a magnitude with a constant). A Newton-type correction `x - b / q` divides the value accumulator of a Horner sweep by its first-derivative accumulator.",
    "design_ref": "DESIGN.md §3 C10, §18",
    "note": "Accuracy (backward error), finiteness in general, matching with the true roots and convergence of Laguerre's iteration are numerical and not decided statically. "
            "One allow-listed divisor symbol: k in cubic_solve.",
    "technique": TECH + "length typing of the result on all paths, dispatch coverage, termination shape, guard-dominated divisor discipline with a one-symbol allow-list, data-flow pattern for deflation",
}

CHECKS["C11"] = {
    "text": "For all coefficient vectors: Add/Sub take self positively and rhs with the trait's sign on every return path including the empty-operand shortcuts "
            "(Sub with empty self returns -rhs); results have max(deg,deg')+1 resp. deg+deg'+1 zero-initialised coefficients with each operand guarded by its own degree; "
            "the product index is the sum of the factor indices over full ranges; eval is Horner from the leading coefficient with i descending; derivative uses target i, "
            "source i+1 and exactly i+1 repeated additions; derivative_n applies it n times; consuming forms forward in operand order; trim pops only trailing zeros; is_zero scans the full range."
            " No operation is certain to panic on the empty polynomial (unsigned subtraction negative at length 0, constant-index read, unwrap of degree()) at a site an empty operand can reach. Apart from the empty-operand cases every input of Add/Sub goes through the coefficient loop (no fast path keyed on anything else); derivative_at is derivative_n(n) evaluated at x on every path.",
    "design_ref": "DESIGN.md §3 C11",
    "note": "The ring and calculus laws as value equalities follow from these definitional formulae and are not decided as value statements.",
    "technique": TECH + "polarity on every return path, length/graded-index/Horner/derivative data-flow patterns, delegation check",
}
CHECKS["C12"] = {
    "text": "polydiv returns Err for the empty and the all-zero divisor before anything else; its only loop increments a counter at the top level of the body and returns Err "
            "past a constant cap (no continue), and every reachable callee loop is bounded with an acyclic call graph (never spins); the quotient term has length deg r - deg v + 1 "
            "with lead(r)/lead(v) at index deg r - deg v; one iteration does q <- q + t and r <- r - t*v with the same t and v (so u = q*v + r is a loop invariant in exact "
            "arithmetic); the cancelled leading coefficient of r is cleared explicitly (absorption test) so that progress does not rely on an exactly-zero rounding residue "
            "(the genuine defect this rule found: [1,1,1]/[49] returned Err); the loop exits on r = 0 or deg r < deg v and returns Ok((q, r))."
            " The cancelled leading coefficient is removed unconditionally before trim (a value test on the rounding residue, component-wise for Complex, does not guarantee the degree drops). Before the loop polydiv refuses only a zero divisor (no other test turns a valid division into Err), and an Ok returned before the loop is guarded by len u < len v or u = 0. The division loop ends through its condition or the cap only (no other break).",
    "design_ref": "DESIGN.md §3 C12, §4 no. 7",
    "note": "The size of the rounding error in q and r is not decided; nor is the astronomically unlikely chain of one-ulp residues that could still reach the cap.",
    "technique": TECH + "dominating Err guards, counter-capped loop shape + call-graph termination, term/update pairing, value-independent degree decrease",
}

CHECKS["C14"] = {
    "text": "The compositional skeleton: sin, cos, sinh, cosh, exp, polar equal their closed forms in real functions of (x, y) (modulo commutativity and sign placement); "
            "tan, tanh, log_b are the right quotients; the six reciprocal functions are one / partner(self); the six inverse-reciprocal functions are partner_inverse(one / self); "
            "ln = (ln|z|, arg z), sqrt = sqrt|z|(cos(arg/2), sin(arg/2)), arg = atan2(imag, real) (principal branches inherited from atan2); pow/powf are the expansion of exp(w ln z). "
            "For the twelve inverse functions the right-inverse identity f(f^-1(z)) = z (1/z for the inverses of the reciprocal functions) is decided as an EXACT identity: the body is "
            "normalised to c0 + sum c_j ln(u_j) over Q[z,i,s_k]/(i^2+1, s_k^2-r_k) and the forward function is applied through its exponential definition using only exp(ln u) = u, "
            "exp(i k pi/2) = i^k, sqrt(r)^2 = r (so it holds for every branch choice); and the branch structure of asin, acos, atan, asinh, acosh, atanh equals the standard "
            "principal-value logarithmic definitions (A&S 4.4.26-31, 4.6.20-25), logarithm arguments and square-root radicands compared as polynomials (sqrt(z-1)sqrt(z+1) is not sqrt(z^2-1)).",
    "design_ref": "DESIGN.md §3 C14, §7, §12",
    "note": "Not decided (not applicable to static analysis): agreement with the defining series in floating point, rounding next to branch points, the numerical ranges of Re asin / Re acos as such "
            "(they follow from the standard logarithmic form, which is what is compared). Trusted: the forward functions are their exponential definitions (primitive-forms/* decide the closed forms), "
            "ln and sqrt are the principal ones (principal/* decide their provenance from atan2); an inverse function written in a logarithmic form other than the standard one (or the A&S variant of acos) is reported.",
    "technique": TECH + "value numbering of single-path bodies compared with the defining closed forms; exact polynomial algebra in a quotient ring (Groebner-reduced) for the right-inverse identities and the branch structure",
}
CHECKS["C15"] = {
    "text": "For all lengths: the 12 element-wise operator impls have the trait's operator, operand order, co-indexing, full 0..size range and result length; consuming forms "
            "forward in operand order; every editing method is a single forwarding call to the std Vec method that defines it (so the vector is its Vec under any history); dot, "
            "sum/product slices (guards, ranges tiling [start,end]), abs, norm_1/2/p, both norm_inf (arg-max over magnitudes from |v_0|), find (first match, else size-1), "
            "assign/conj/real and linspace/powspace have their definitional form."
            " Nothing is certain to panic on the empty vector; norm_inf covers every element from 0.0 and a NaN component replaces the running maximum. Two recorded open findings: norm_2 / norm_p sum unscaled powers (KNOWN-FINDING lines, exit 0).",
    "design_ref": "DESIGN.md §3 C15",
    "note": "Norm axioms beyond the range clause, monotonicity/end-point accuracy of generated sequences and exactness on representable data are not decided statically.",
    "technique": TECH + "polarity/co-index/full-range templates, forwarding-call delegation to std, reduction and arg-max patterns",
}
CHECKS["C19"] = {
    "text": "For all grids: every access to Mesh2D::vars is a*ny + b with a < nx and b < ny proved from loop ranges or accessor guards; the checked accessors reject out-of-range "
            "nodes and wrong variable counts first; constructors allocate one nvars-vector per node (row-major for 2-D); set stores the argument in the mapped slot and get returns "
            "a clone of the same slot; cross-sections use the right axis, argument positions and full range; var_as_matrix is nx x ny with the flat map; 1-D/2-D trapezium use the "
            "two end points / four distinct corners of each cell with the right spacings and weight; interpolation is the linear formula on the bracketed cell, its snapping windows are "
            "literals not larger than 1e-6, and at a cell's end nodes it reduces to the stored nodal value using floating-point-exact simplifications only (never (a/b)*b = a); the writer's record "
            "(coordinate + nvars values) matches the reader's stride and field order. The writer opens its file truncating it (File::create or OpenOptions with truncate(true)); the reader is accepted in the stride forms `i % stride == 0 / == var+1`, `step_by(stride)` and `vars[i / stride][i % stride - 1]`; every placeholder of the writer's format strings (templates of the lowered format_args!, decoded from the typed HIR) is delimited by white space, which is what the reader splits on. A quadrature returns early only with 0.0 and only for a mesh without a cell.",
    "design_ref": "DESIGN.md §3 C19",
    "note": "Exactness of quadrature/interpolation on (bi)linear data between the nodes and the printed-precision round trip are numerical and not decided statically. Grids are strictly increasing (the property's domain). Raw Mesh2D (i,j) indexing is outside the claim.",
    "technique": TECH + "flat-index map discovery + single-fact bounds proofs, accessor guards, corner-set / stride-agreement patterns",
}

NOT_APPLICABLE = {
}
for _i in range(1, 21):
    _p = "C%02d" % _i
    if _p not in CHECKS:
        NOT_APPLICABLE[_p] = "static rules for this property are designed (DESIGN.md §3) but not yet armed in this commit; no claim is made until they are"
