"""Per-property manifest entries.  A property is listed in CHECKS only once its rules exist and pass on the tree."""

TECH = "static analysis: custom rules over the type-checked HIR (rustc_private driver) — "

CHECKS = {
    "C20": {
        "text": "For all inputs at once: every listed entry point has the mismatch-implies-panic guard (exact condition, right dimension, "
                "!=-form) ahead of every storage access, own or through the function it forwards to; every by-reference operand is a shared "
                "reference to Freeze data in a crate without unsafe (so it cannot be changed: a type-system proof); every consuming operator "
                "impl forwards to its borrowing counterpart in operand order; every Clone builds all fields from self and the types own their storage.",
        "design_ref": "DESIGN.md §3 C20, Appendix A",
        "note": "Trusted: rustc's type checker / is_freeze / callee resolution, std's bounds checks for the Vec-forwarded methods, the rule engine. "
                "Element types assumed Freeze. Raw (i,j) index operators outside the claim as the property says. Decides guard structure, not run-time outcomes.",
        "technique": TECH + "guard dominance + dimension-exact reject table, effect/Freeze typing proof, delegation check",
    },
}

CHECKS["C03"] = {
    "text": "For all shapes at once: every dense-matrix operation has the definitional index discipline (no index bounded by one dimension "
            "is used against another: the rule that found the set_col defect), result shape, operand polarity (Sub: rhs negative, Div: scalar is the divisor), "
            "co-indexing, full 0..dim ranges, norm orientation, product construction (same column on both sides), transpose/swap/delete/resize "
            "index arithmetic, and consuming forms forward in operand order.",
    "design_ref": "DESIGN.md §3 C03",
    "note": "Decides structure of each operation, not equality with a reference model over all values/histories (not decidable statically). "
            "Trusted: rustc typeck/callee resolution; the rule engine; Vec semantics (push/drain/clone).",
    "technique": TECH + "dimension-kind contradiction analysis (Engler-style), polarity/co-index/full-range templates, per-operation definitional patterns",
}

NOT_APPLICABLE = {
}
for _i in range(1, 21):
    _p = "C%02d" % _i
    if _p not in CHECKS:
        NOT_APPLICABLE[_p] = "static rules for this property are designed (DESIGN.md §3) but not yet armed in this commit; no claim is made until they are"
