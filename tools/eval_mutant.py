#!/usr/bin/env python3
"""Confirm an externally written mutant and measure whether the property's check reports it.

usage: eval_mutant.py <Cnn> <mutant_dir> <scratch_worktree> [--keep-as <name>]

Steps (all in the scratch worktree, never in /repo):
  1. apply patch.diff to a clean tree; the whole existing suite must still pass (236 passed, 0 failed);
  2. with demo.rs copied to tests/, the demo must FAIL; with the patch reverted it must PASS;
  3. with the patch applied, `./check <Cnn> --repo <worktree> --no-evidence` must exit 1 with a VIOLATION line
     (= detected) — recorded, never enforced;
  4. on --keep-as, the mutant is stored as /verif/seeded/<name>/ {patch.diff, demo.rs, meta.json}.
"""
import json
import os
import re
import shutil
import subprocess
import sys

VERIF = os.path.dirname(os.path.dirname(os.path.abspath(__file__)))


def sh(cmd, cwd, timeout=1200):
    env = dict(os.environ, CARGO_NET_OFFLINE="true")
    r = subprocess.run(cmd, cwd=cwd, shell=True, capture_output=True, text=True, timeout=timeout, env=env)
    return r.returncode, r.stdout + r.stderr


def main():
    prop, mdir, wt = sys.argv[1], sys.argv[2].rstrip("/"), sys.argv[3]
    keep = sys.argv[sys.argv.index("--keep-as") + 1] if "--keep-as" in sys.argv else None
    patch = os.path.join(mdir, "patch.diff")
    demo = os.path.join(mdir, "demo.rs")
    out = {"property": prop, "mutant": mdir}
    sh("git checkout -- . && rm -f tests/demo_eval.rs", wt)
    rc, o = sh("git apply --whitespace=nowarn %s" % patch, wt)
    if rc != 0:
        out["error"] = "patch does not apply: " + o[-300:]
        print(json.dumps(out))
        return 1
    rc, o = sh("cargo test --offline 2>&1", wt)
    res = re.findall(r"test result: (\w+)\. (\d+) passed; (\d+) failed", o)
    out["suite_with_mutant"] = res
    out["tests_pass_with_mutant"] = rc == 0 and any(int(p) == 236 for _, p, _ in res) and all(int(f) == 0 for _, _, f in res)
    shutil.copy(demo, os.path.join(wt, "tests", "demo_eval.rs"))
    rc, o = sh("cargo test --offline --test demo_eval 2>&1", wt)
    out["demo_fails_with_mutant"] = rc != 0 and ("panicked" in o or "FAILED" in o or "failed" in o) and "could not compile" not in o
    out["demo_tail_with_mutant"] = o[-400:]
    # detection by the static check
    rc, o = sh("%s/check %s --repo %s --no-evidence 2>&1" % (VERIF, prop, wt), VERIF)
    viol = re.findall(r"VIOLATION property=\S+ replay=\S+/([^/\s]+)\.json", o)
    keys = re.findall(r"\[(C\d\d/[^\]]+)\]\s*$", "\n".join(l for l in o.splitlines() if not l.startswith("KNOWN-FINDING")), re.M)
    out["check_exit"] = rc
    out["detected"] = rc == 1 and bool(viol)
    out["violation_keys"] = keys[:8]
    # other properties' checks (a mutant may be reported by a neighbouring property too)
    sh("git checkout -- src", wt)
    rc, o = sh("cargo test --offline --test demo_eval 2>&1", wt)
    out["demo_passes_without"] = rc == 0
    sh("rm -f tests/demo_eval.rs && git checkout -- .", wt)
    out["confirmed"] = bool(out["tests_pass_with_mutant"] and out["demo_fails_with_mutant"] and out["demo_passes_without"])
    if keep and out["confirmed"]:
        d = os.path.join(VERIF, "seeded", keep)
        os.makedirs(d, exist_ok=True)
        shutil.copy(patch, os.path.join(d, "patch.diff"))
        shutil.copy(demo, os.path.join(d, "demo.rs"))
        meta = {}
        try:
            meta = json.load(open(os.path.join(mdir, "meta.json")))
        except Exception:
            pass
        meta.update({"property": prop,
                     "confirmed_by_us": {"tests_pass_with_mutant": out["tests_pass_with_mutant"], "demo_fails_with_mutant": out["demo_fails_with_mutant"],
                                         "demo_passes_without": out["demo_passes_without"]},
                     "what_we_ran": ["git apply patch.diff (scratch worktree of /repo)", "cargo test --offline  -> 236 passed",
                                     "cp demo.rs tests/demo_eval.rs; cargo test --offline --test demo_eval  -> fails",
                                     "git checkout -- src; cargo test --offline --test demo_eval  -> passes",
                                     "./check %s --repo <worktree with patch> --no-evidence" % prop],
                     "detected_by_check": out["detected"], "violation_keys": out["violation_keys"]})
        json.dump(meta, open(os.path.join(d, "meta.json"), "w"), indent=1)
    print(json.dumps(out))
    return 0


if __name__ == "__main__":
    sys.exit(main())
