#!/usr/bin/env python3
"""False-alarm regression corpus: /verif/neutral/<name>/patch.diff are behaviour-preserving refactorings written by
independent agents (they saw nothing of /verif).  Every check must stay silent on every one of them.

  neutral_corpus.py build [names...]   apply each patch to a scratch worktree of /repo (outside /repo and /verif), dump the
                                       PDB to /tmp/ncorpus/<name>.json (development cache only), undo
  neutral_corpus.py run [-p C03] [--own] [names...]   run all (or one; --own: only the patch's own property's) checks on the cached PDBs; prints alarms
"""
import json
import os
import re
import subprocess
import sys
from concurrent.futures import ThreadPoolExecutor

VERIF = os.path.dirname(os.path.dirname(os.path.abspath(__file__)))
sys.path.insert(0, VERIF)
CACHE = "/tmp/ncorpus"
NEUTRAL = os.path.join(VERIF, "neutral")
if os.environ.get("CORPUS") == "seeded":      # the confirmed external mutants: every one must still be REPORTED by its property's check
    CACHE = "/tmp/scorpus"
    NEUTRAL = os.path.join(VERIF, "seeded")


def sh(cmd, cwd=None):
    r = subprocess.run(cmd, cwd=cwd, shell=True, capture_output=True, text=True)
    return r.returncode, r.stdout + r.stderr


def names(argv):
    ns = [a for a in argv if not a.startswith("-")]
    return ns or sorted(d for d in os.listdir(NEUTRAL) if os.path.isdir(os.path.join(NEUTRAL, d)))


def build(ns):
    from rules import pdb as pdbmod
    os.makedirs(CACHE, exist_ok=True)
    wts = []
    for i in range(6):
        wt = "/tmp/ncorpus-wt%d" % i
        sh("git -C /repo worktree remove --force %s" % wt)
        rc, o = sh("git -C /repo worktree add --detach %s HEAD" % wt)
        if rc != 0:
            print(o)
            return 1
        wts.append(wt)
    import queue
    q = queue.Queue()
    for w in wts:
        q.put(w)

    def one(n):
        wt = q.get()
        try:
            patch = os.path.join(NEUTRAL, n, "patch.diff")
            sh("git reset -q --hard HEAD && git clean -fdq src", wt)
            rc, o = sh("git apply --whitespace=nowarn %s" % patch, wt)
            if rc != 0:
                rc, o = sh("git apply --3way --whitespace=nowarn %s" % patch, wt)
            if rc != 0 or sh("grep -rlq '^<<<<<<<' src", wt)[0] == 0:
                try:
                    os.unlink(os.path.join(CACHE, n + ".json"))
                except OSError:
                    pass
                return n, "does not apply: " + o[-200:]
            try:
                d, info = pdbmod.build_pdb(repo=wt)
            except pdbmod.PdbError as e:
                try:
                    os.unlink(os.path.join(CACHE, n + ".json"))
                except OSError:
                    pass
                return n, "pdb: " + str(e)[-300:]
            json.dump(d, open(os.path.join(CACHE, n + ".json"), "w"))
            return n, "ok"
        finally:
            sh("git reset -q --hard HEAD && git clean -fdq src", wt)
            q.put(wt)
    with ThreadPoolExecutor(6) as ex:
        for n, r in ex.map(one, ns):
            if r != "ok":
                print(n, r)
    for w in wts:
        sh("git -C /repo worktree remove --force %s" % w)
    return 0


def run(ns, prop=None):
    props = [prop] if prop else ["C%02d" % i for i in range(1, 21)]
    jobs = []
    for n in ns:
        p = os.path.join(CACHE, n + ".json")
        if not os.path.exists(p):
            print(n, "no cached PDB (run build)")
            continue
        for pr in props:
            if "--own" in sys.argv and pr != "C" + n[1:3]:
                continue            # only the check of the property the patch was written for (20 times cheaper)
            jobs.append((n, pr, p))

    def one(j):
        n, pr, p = j
        r = subprocess.run([os.path.join(VERIF, "check"), pr, "--pdb", p, "--no-evidence"], capture_output=True, text=True)
        keys = re.findall(r"\[(C\d\d/[^\]]+)\]\s*$", "\n".join(l for l in (r.stdout + r.stderr).splitlines() if not l.startswith("KNOWN-FINDING")), re.M)
        return n, pr, r.returncode, keys
    alarms = {}
    with ThreadPoolExecutor(14) as ex:
        for n, pr, rc, keys in ex.map(one, jobs):
            if rc != 0:
                alarms.setdefault(n, {})[pr] = keys[:8]
    if os.environ.get("CORPUS") == "seeded":
        silent = []
        for n in ns:
            own = "C" + n[1:3]
            meta = {}
            try:
                meta = json.load(open(os.path.join(NEUTRAL, n, "meta.json")))
            except Exception:
                pass
            was = meta.get("detected_by_check")
            now = own in alarms.get(n, {})
            if was and not now:
                print("LOST", n, "was detected, now silent; other alarms:", json.dumps(alarms.get(n, {})))
            if not was and now:
                print("GAINED", n, alarms[n][own][:3])
            if not now:
                silent.append(n)
            if "--update" in sys.argv and meta:
                meta["detected_by_check"] = bool(now)
                meta["violation_keys"] = alarms.get(n, {}).get(own, [])[:8]
                json.dump(meta, open(os.path.join(NEUTRAL, n, "meta.json"), "w"), indent=1)
        print("mutants=%d reported by own property=%d silent=%s" % (len(ns), len(ns) - len(silent), silent))
        return 0
    for n in ns:
        if n in alarms:
            print(n, json.dumps(alarms[n]))
    print("patches=%d alarming=%d" % (len(ns), len(alarms)))
    return 0


if __name__ == "__main__":
    mode = sys.argv[1]
    rest = sys.argv[2:]
    prop = None
    if "-p" in rest:
        i = rest.index("-p")
        prop = rest[i + 1]
        rest = rest[:i] + rest[i + 2:]
    sys.exit(build(names(rest)) if mode == "build" else run(names(rest), prop))
