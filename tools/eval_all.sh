#!/bin/sh
# usage: tools/eval_all.sh c06 c08 ...   (evaluates the three external mutants of each id in parallel)
for id in "$@"; do
  P=$(echo $id | tr a-z A-Z)
  ( for k in 1 2 3; do
      if [ -f /tmp/wt/$id-out/mut$k/patch.diff ]; then
        python3 /verif/tools/eval_mutant.py $P /tmp/wt/$id-out/mut$k /tmp/wt/$id --keep-as $id-ext-$k 2>/dev/null | grep '^{' > /tmp/wt/$id-out/eval$k.json
      fi
    done ) &
done
wait
for id in "$@"; do for k in 1 2 3; do python3 - "$id" "$k" <<'PY'
import json,sys
i,k=sys.argv[1],sys.argv[2]
try:
    d=json.load(open('/tmp/wt/%s-out/eval%s.json'%(i,k)))
    print(i,k,'confirmed=%s detected=%s %s %s'%(d.get('confirmed'),d.get('detected'),d.get('violation_keys'),d.get('error') or ''))
    if not d.get('confirmed'): print('   ', d.get('tests_pass_with_mutant'), d.get('demo_fails_with_mutant'), d.get('demo_passes_without'), d.get('suite_with_mutant'), d.get('demo_tail_with_mutant','')[-150:])
except Exception as e: print(i,k,'no result',e)
PY
done; done
