#!/bin/sh
# usage: [R=r2] tools/eval_all.sh c06 c08 ...   (evaluates the three external mutants of each id in parallel)
# round 1 lives in /tmp/wt/<id>-out/mutN, later rounds in /tmp/wt/<id>-out/<R>/mutN
R=${R:-}
for id in "$@"; do
  P=$(echo $id | tr a-z A-Z)
  if [ -n "$R" ]; then D=/tmp/wt/$id-out/$R; TAG=ext$(echo $R | tr -d r); else D=/tmp/wt/$id-out; TAG=ext; fi
  ( for k in 1 2 3; do
      if [ -f $D/mut$k/patch.diff ]; then
        python3 /verif/tools/eval_mutant.py $P $D/mut$k /tmp/wt/$id --keep-as $id-$TAG-$k 2>/dev/null | grep '^{' > $D/eval$k.json
      fi
    done ) &
done
wait
for id in "$@"; do
  if [ -n "$R" ]; then D=/tmp/wt/$id-out/$R; else D=/tmp/wt/$id-out; fi
  for k in 1 2 3; do python3 - "$id" "$k" "$D" <<'PY'
import json,sys
i,k,D=sys.argv[1],sys.argv[2],sys.argv[3]
try:
    d=json.load(open('%s/eval%s.json'%(D,k)))
    print(i,k,'confirmed=%s detected=%s %s %s'%(d.get('confirmed'),d.get('detected'),d.get('violation_keys'),d.get('error') or ''))
    if not d.get('confirmed'): print('   ', d.get('tests_pass_with_mutant'), d.get('demo_fails_with_mutant'), d.get('demo_passes_without'), d.get('suite_with_mutant'), d.get('demo_tail_with_mutant','')[-150:])
except Exception as e: print(i,k,'no result',e)
PY
done; done
