#!/usr/bin/env python3
"""Regenerate MANIFEST.json from the per-property table below (kept next to the rules so the two cannot drift)."""
import json
import os
import sys

HERE = os.path.dirname(os.path.dirname(os.path.abspath(__file__)))
sys.path.insert(0, HERE)
from tools.manifest_table import CHECKS, NOT_APPLICABLE  # noqa: E402


def main():
    checks = []
    for pid in sorted(CHECKS):
        c = CHECKS[pid]
        checks.append({
            "property_id": pid,
            "quick_cmd": "./check %s --tier quick" % pid,
            "thorough_cmd": "./check %s --tier thorough" % pid,
            "evidence_file": "/verif/evidence/%s.json" % pid,
            "replay_cmd_template": "./check %s --tier quick --replay {path}" % pid,
            "engine": "ohsl-static-rules",
            "level_claimed": {"category": c.get("category", "other"), "text": c["text"], "design_ref": c["design_ref"]},
            "level_note": c["note"],
            "technique": c["technique"],
        })
    m = {
        "version": 1,
        "setup_cmd": "cd /verif/driver && CARGO_NET_OFFLINE=true cargo +nightly build --release --offline",
        "hooks": {
            "guard": "ohsl_verif",
            "enable": "none needed: the driver reads /repo's working tree as it is (no instrumentation, no cfg)",
            "baseline_off_cmd": "cd /repo && cargo test --workspace --no-fail-fast --offline",
            "source_commits": [],
            "add_only": True,
        },
        "engines": [
            {"name": "ohsl-static-rules", "path": "/verif/check",
             "serves_properties": sorted(CHECKS),
             "kind_free_text": "static analysis: a rustc_private driver (driver/) dumps the typed HIR of /repo's working tree "
                               "(resolved callees, types, macro provenance) under cargo +nightly check; a Python rule engine (rules/) "
                               "evaluates per-property structural rules (guards, index kinds, polarity, pairing, delegation, effects, "
                               "termination shape, straight-line algebra); compile_fail witnesses (witness/) in the thorough tier. "
                               "No ohsl code is executed and no path is handed to a solver."},
        ],
        "checks": checks,
        "not_applicable": [{"property_id": k, "reason": v} for k, v in sorted(NOT_APPLICABLE.items())],
        "notes": "Every check decides the structural clauses named in its level text for all inputs at once; none decides "
                 "numerical behaviour (see DESIGN.md section 0 and section 7).  Besides its own rules every check (except C20) also evaluates the "
                 "value-semantic rule instances of the other properties at the functions its own anchors call (dependency closure, DESIGN.md section 12): "
                 "a property about polydiv is also broken by a change to is_zero, one about the cubic formula by a change to Complex::powf.  Genuine defects found by the rules were repaired in /repo with "
                 "`fix:` commits and are listed as `fixed:` in known_findings.txt.",
    }
    with open(os.path.join(HERE, "MANIFEST.json"), "w") as f:
        json.dump(m, f, indent=1)
        f.write("\n")
    print("wrote MANIFEST.json with %d checks, %d not_applicable" % (len(checks), len(m["not_applicable"])))


if __name__ == "__main__":
    main()
