#!/bin/sh
# Regenerates reference/krylov_ref.pdb.json from reference/krylov_ref.rs (only needed when the reference or the driver's
# output format changes; the checks only READ the frozen file).  Works in a scratch copy of /repo outside /repo and /verif.
set -e
V=$(cd "$(dirname "$0")/.." && pwd)
R=${1:-/repo}
S=$(mktemp -d /tmp/krylov-ref.XXXXXX)
trap 'rm -rf "$S"' EXIT
mkdir -p "$S/src"
(cd "$R" && git archive HEAD) | tar -x -C "$S"
cat "$V/reference/krylov_ref.rs" >> "$S/src/sparse.rs"
[ -x "$V/driver/target/release/ohsl-pdb-driver" ] || (cd "$V/driver" && cargo build --release --offline --quiet)
cd "$S" && LD_LIBRARY_PATH=$(rustc +nightly --print sysroot)/lib RUSTFLAGS="-Awarnings" RUSTC_WORKSPACE_WRAPPER="$V/driver/target/release/ohsl-pdb-driver" \
  PDB_OUT="$S/pdb.json" CARGO_TARGET_DIR="$S/t" CARGO_NET_OFFLINE=true cargo +nightly check --offline --lib --quiet
python3 - "$S/pdb.json" "$V/reference/krylov_ref.pdb.json" <<'P'
import json, sys
d = json.load(open(sys.argv[1]))
json.dump(d, open(sys.argv[2], "w"), separators=(",", ":"))
print("reference PDB written:", sys.argv[2])
P
