#!/usr/bin/env python3
"""Regenerate seeded/INDEX.md from seeded/*/meta.json (detected_by_check / violation_keys are refreshed by
`CORPUS=seeded tools/neutral_corpus.py run --update`)."""
import json
import os
import re

HERE = os.path.dirname(os.path.dirname(os.path.abspath(__file__)))
S = os.path.join(HERE, "seeded")


def main():
    rows = []
    for n in sorted(os.listdir(S)):
        p = os.path.join(S, n, "meta.json")
        if not os.path.exists(p):
            continue
        m = json.load(open(p))
        rules = sorted({k.split("/")[1] if k.split("/")[1] != "dep" else "dep:" + "/".join(k.split("/")[2:4]) for k in m.get("violation_keys", []) if "/" in k})
        one = lambda s_: re.sub(r"\s+", " ", str(s_ or "")).replace("|", "/")
        rows.append("| %s | %s | %s | %s | %s | %s |" % (n, m.get("property"), one(m.get("summary"))[:170], one(m.get("needs"))[:150],
                                                    "yes" if m.get("detected_by_check") else "**no**", ", ".join(rules)))
    det = sum(1 for r in rows if "| yes |" in r)
    head = """# Independent mutants (written by sub-agents that saw only the property text)

Rounds of twenty sub-agents (one per property and round), each given only the property text and its own scratch git worktree of /repo.
Round 1 `*-ext-*`; round 2 `*-ext2-*` (given one-line summaries of the earlier mutants of the same property and asked for different
mechanisms); round 3 `*-ext3-*` (asked for cooperating sites / multi-step sequences); round 4 `*-ext4-*` (new features, performance
refactorings, one-token slips in indirect helpers); round 5 `*-ext5-*` (outside the anchor files, edges of the quantifier, over-reaching
robustness changes); round 6 `*-ext6-*` (wrong member of a family, follow-ups to the repaired code, state that outlives a call or an
iteration); round 7 `*-ext7-*` (a slightly wrong formula, recurrence or index expression; an interaction of two operations or another
element type; what a source-reading tool is least likely to notice); round 8 `*-ext8-*` (ten properties only: conditional
"optimisations" written without `continue`, guards and clamps added for robustness, one-operand slips).  Mutants that stopped breaking their property when a `fix:` commit made the property robust against them are kept, with the
reason, in `../seeded_retired/` and are not counted here.

Each directory holds `patch.diff`, `demo.rs` (an integration test that fails with the change and passes without) and `meta.json` (what it
breaks, what it needs to manifest, what was run to confirm it, and which rule instances report it). All were confirmed by us in a scratch
worktree (`tools/eval_mutant.py`): the 236-test suite still passes with the change, the demo fails with it and passes without it.
Patches that touched code changed by a later repair were ported to the repaired tree and re-confirmed (`tools/revalidate_seeded.py`).

**%d mutants, %d reported by the property's own check on the current engine.**

| id | property | change | needs | reported by the property's check | rules |
|---|---|---|---|---|---|
""" % (len(rows), det)
    open(os.path.join(S, "INDEX.md"), "w").write(head + "\n".join(rows) + "\n")
    print("%d mutants, %d reported" % (len(rows), det))


if __name__ == "__main__":
    main()
