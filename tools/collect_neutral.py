#!/usr/bin/env python3
"""Collect a round of behaviour-preserving patches written by independent sub-agents into /verif/neutral/.

usage: collect_neutral.py <round-letter>        reads /tmp/wt/nNN-out/<letter>K/{patch.diff,meta.json}, NN = 01..20, K = 1..5

Each patch is confirmed by us before it is kept: it applies to a clean scratch worktree of /repo's HEAD and the whole
existing suite still passes with it (236 passed, 0 failed).  Kept as /verif/neutral/cNN-<letter>K/.  Scratch worktrees live
under /tmp and are removed at the end.
"""
import concurrent.futures
import json
import os
import queue
import re
import shutil
import subprocess
import sys

VERIF = os.path.dirname(os.path.dirname(os.path.abspath(__file__)))


def sh(cmd, cwd=None, timeout=1800):
    env = dict(os.environ, CARGO_NET_OFFLINE="true")
    r = subprocess.run(cmd, cwd=cwd, shell=True, capture_output=True, text=True, timeout=timeout, env=env)
    return r.returncode, r.stdout + r.stderr


def main():
    letter = sys.argv[1]
    jobs = []
    for i in range(1, 21):
        for k in range(1, 6):
            d = "/tmp/wt/n%02d-out/%s%d" % (i, letter, k)
            if os.path.exists(os.path.join(d, "patch.diff")):
                jobs.append(("c%02d-%s%d" % (i, letter, k), d))
    wts = queue.Queue()
    made = []
    for j in range(6):
        wt = "/tmp/coll-wt%d" % j
        sh("git -C /repo worktree remove --force %s" % wt)
        rc, o = sh("git -C /repo worktree add --detach %s HEAD" % wt)
        if rc != 0:
            print(o)
            return 1
        made.append(wt)
        wts.put(wt)

    def one(job):
        name, d = job
        wt = wts.get()
        try:
            sh("git reset -q --hard HEAD && git clean -fdq src tests", wt)
            rc, o = sh("git apply --whitespace=nowarn %s" % os.path.join(d, "patch.diff"), wt)
            if rc != 0:
                return name, "does not apply: " + o[-200:]
            rc, o = sh("cargo test --offline 2>&1 | grep -E '^test result|error(\\[|:)' ", wt)
            passed = sum(int(x) for x in re.findall(r"(\d+) passed", o))
            failed = sum(int(x) for x in re.findall(r"(\d+) failed", o))
            if "error" in o or failed or passed < 236:
                return name, "suite: passed=%d failed=%d %s" % (passed, failed, o[-200:])
            dst = os.path.join(VERIF, "neutral", name)
            os.makedirs(dst, exist_ok=True)
            shutil.copy(os.path.join(d, "patch.diff"), os.path.join(dst, "patch.diff"))
            try:
                meta = json.load(open(os.path.join(d, "meta.json")))
            except Exception:
                meta = {}
            meta["confirmed_by_us"] = {"applies_to_head": True, "suite_passed": passed, "suite_failed": failed}
            json.dump(meta, open(os.path.join(dst, "meta.json"), "w"), indent=1)
            return name, "ok"
        finally:
            sh("git reset -q --hard HEAD && git clean -fdq src tests", wt)
            wts.put(wt)

    with concurrent.futures.ThreadPoolExecutor(max_workers=6) as ex:
        for name, res in ex.map(one, jobs):
            print(name, res, flush=True)
    for wt in made:
        sh("git -C /repo worktree remove --force %s" % wt)
    return 0


if __name__ == "__main__":
    sys.exit(main())
