// Reference transcriptions of the four Krylov methods, written from the pseudo-code of
//   Barrett, Berry, Chan, Demmel, Donato, Dongarra, Eijkhout, Pozo, Romine, van der Vorst,
//   "Templates for the Solution of Linear Systems: Building Blocks for Iterative Methods", SIAM 1994,
//   Fig. 2.5 (CG), Fig. 2.7 (BiCG), Fig. 2.10 (Bi-CGSTAB), Fig. 2.8 (QMR without look-ahead),
// with the preconditioners M, M1, M2 equal to the identity and the usual choice of the shadow residual
// ( r~(0) = r(0), w~(1) = r(0) ).  They are NOT part of ohsl and are never executed: tools/build_reference.sh appends
// this file to a scratch copy of src/sparse.rs, dumps its typed HIR with the same driver as the checks, and
// freezes the result as reference/krylov_ref.pdb.json.  rules/krylov_fp.py compares the iteration map of each
// solve_* in /repo with the iteration map of its ref_* twin (rule C09/iteration-map/<solver>).
//
// Only what the comparison looks at is spelled out with care: the start-up, the order of the updates and the
// formulas of the recurrences.  The stopping tests are the plain ones of the book.

impl Sparse<f64> {
    /// Templates Fig. 2.5
    pub fn ref_cg( &self, b: &Vector<f64>, x: &mut Vector<f64>, max_iter: usize, tol: f64 ) -> Result<usize, f64> {
        let mut normb = b.norm_2();
        if normb == 0.0 { normb = 1.0; }
        let mut r = b.clone() - self.multiply( x );          // r(0) = b - A x(0)
        let mut p = Vector::new( self.rows, 0.0 );
        let mut rho_old = 1.0;
        if r.norm_2() / normb <= tol { return Ok( 0 ); }
        for i in 1..=max_iter {
            let z = r.clone();                                // solve M z(i-1) = r(i-1)
            let rho = r.dot( &z );                            // rho(i-1) = r(i-1)^T z(i-1)
            if i == 1 {
                p = z.clone();                                // p(1) = z(0)
            } else {
                let beta = rho / rho_old;                     // beta(i-1) = rho(i-1) / rho(i-2)
                p = z.clone() + beta * p.clone();             // p(i) = z(i-1) + beta(i-1) p(i-1)
            }
            let q = self.multiply( &p );                      // q(i) = A p(i)
            let alpha = rho / p.dot( &q );                    // alpha(i) = rho(i-1) / p(i)^T q(i)
            *x += alpha * p.clone();                          // x(i) = x(i-1) + alpha(i) p(i)
            r -= alpha * q.clone();                           // r(i) = r(i-1) - alpha(i) q(i)
            rho_old = rho;
            if r.norm_2() / normb <= tol { return Ok( i ); }
        }
        Err( r.norm_2() / normb )
    }

    /// Templates Fig. 2.7
    pub fn ref_bicg( &self, b: &Vector<f64>, x: &mut Vector<f64>, max_iter: usize, tol: f64 ) -> Result<usize, f64> {
        let mut normb = b.norm_2();
        if normb == 0.0 { normb = 1.0; }
        let mut r = b.clone() - self.multiply( x );          // r(0) = b - A x(0)
        let mut rt = r.clone();                               // r~(0) = r(0)
        let mut p = Vector::new( self.rows, 0.0 );
        let mut pt = Vector::new( self.rows, 0.0 );
        let mut rho_old = 1.0;
        if r.norm_2() / normb <= tol { return Ok( 0 ); }
        for i in 1..=max_iter {
            let z = r.clone();                                // solve M z(i-1) = r(i-1)
            let zt = rt.clone();                              // solve M^T z~(i-1) = r~(i-1)
            let rho = z.dot( &rt );                           // rho(i-1) = z(i-1)^T r~(i-1)
            if rho == 0.0 { return Err( r.norm_2() / normb ); }
            if i == 1 {
                p = z.clone();
                pt = zt.clone();
            } else {
                let beta = rho / rho_old;                     // beta(i-1) = rho(i-1) / rho(i-2)
                p = z.clone() + beta * p.clone();             // p(i) = z(i-1) + beta(i-1) p(i-1)
                pt = zt.clone() + beta * pt.clone();          // p~(i) = z~(i-1) + beta(i-1) p~(i-1)
            }
            let q = self.multiply( &p );                      // q(i) = A p(i)
            let qt = self.transpose_multiply( &pt );          // q~(i) = A^T p~(i)
            let alpha = rho / pt.dot( &q );                   // alpha(i) = rho(i-1) / p~(i)^T q(i)
            *x += alpha * p.clone();                          // x(i) = x(i-1) + alpha(i) p(i)
            r -= alpha * q.clone();                           // r(i) = r(i-1) - alpha(i) q(i)
            rt -= alpha * qt.clone();                         // r~(i) = r~(i-1) - alpha(i) q~(i)
            rho_old = rho;
            if r.norm_2() / normb <= tol { return Ok( i ); }
        }
        Err( r.norm_2() / normb )
    }

    /// Templates Fig. 2.10
    pub fn ref_bicgstab( &self, b: &Vector<f64>, x: &mut Vector<f64>, max_iter: usize, tol: f64 ) -> Result<usize, f64> {
        let mut normb = b.norm_2();
        if normb == 0.0 { normb = 1.0; }
        let mut r = b.clone() - self.multiply( x );          // r(0) = b - A x(0)
        let rt = r.clone();                                   // r~ = r(0)
        let mut p = Vector::new( self.rows, 0.0 );
        let mut v = Vector::new( self.rows, 0.0 );
        let mut rho_old = 1.0;
        let mut alpha = 1.0;
        let mut omega = 1.0;
        if r.norm_2() / normb <= tol { return Ok( 0 ); }
        for i in 1..=max_iter {
            let rho = rt.dot( &r );                           // rho(i-1) = r~^T r(i-1)
            if rho == 0.0 { return Err( r.norm_2() / normb ); }
            if i == 1 {
                p = r.clone();                                // p(1) = r(0)
            } else {
                let beta = ( rho / rho_old ) * ( alpha / omega );           // beta(i-1)
                p = r.clone() + beta * ( p.clone() - omega * v.clone() );   // p(i) = r(i-1) + beta(i-1)( p(i-1) - omega(i-1) v(i-1) )
            }
            let phat = p.clone();                             // solve M p^ = p(i)
            v = self.multiply( &phat );                       // v(i) = A p^
            alpha = rho / rt.dot( &v );                       // alpha(i) = rho(i-1) / r~^T v(i)
            let s = r.clone() - alpha * v.clone();            // s = r(i-1) - alpha(i) v(i)
            if s.norm_2() / normb <= tol {                    // check norm of s; if small enough: x(i) = x(i-1) + alpha(i) p^ and stop
                *x += alpha * phat.clone();
                return Ok( i );
            }
            let shat = s.clone();                             // solve M s^ = s
            let t = self.multiply( &shat );                   // t = A s^
            omega = t.dot( &s ) / t.dot( &t );                // omega(i) = t^T s / t^T t
            *x += alpha * phat.clone() + omega * shat.clone();    // x(i) = x(i-1) + alpha(i) p^ + omega(i) s^
            r = s.clone() - omega * t.clone();                // r(i) = s - omega(i) t
            rho_old = rho;
            if r.norm_2() / normb <= tol { return Ok( i ); }
            if omega == 0.0 { return Err( r.norm_2() / normb ); }     // for continuation it is necessary that omega(i) != 0
        }
        Err( r.norm_2() / normb )
    }

    /// Templates Fig. 2.8 ( theta enters the recurrences only through its square, so |beta| is written beta )
    pub fn ref_qmr( &self, b: &Vector<f64>, x: &mut Vector<f64>, max_iter: usize, tol: f64 ) -> Result<usize, f64> {
        let mut normb = b.norm_2();
        if normb == 0.0 { normb = 1.0; }
        let mut r = b.clone() - self.multiply( x );          // r(0) = b - A x(0)
        if r.norm_2() / normb <= tol { return Ok( 0 ); }
        let mut vt = r.clone();                               // v~(1) = r(0)
        let mut y = vt.clone();                               // solve M1 y = v~(1)
        let mut rho = y.norm_2();                             // rho(1) = ||y||
        let mut wt = r.clone();                               // choose w~(1), for example w~(1) = r(0)
        let mut z = wt.clone();                               // solve M2^T z = w~(1)
        let mut xi = z.norm_2();                              // xi(1) = ||z||
        let mut gamma = 1.0;                                  // gamma(0) = 1
        let mut eta = -1.0;                                   // eta(0) = -1
        let mut theta = 0.0;
        let mut eps = 1.0;
        let mut p = Vector::new( self.rows, 0.0 );
        let mut q = Vector::new( self.rows, 0.0 );
        let mut d = Vector::new( self.rows, 0.0 );
        let mut s = Vector::new( self.rows, 0.0 );
        for i in 1..=max_iter {
            if rho == 0.0 { return Err( r.norm_2() / normb ); }      // if rho(i) = 0 or xi(i) = 0 method fails
            if xi == 0.0 { return Err( r.norm_2() / normb ); }
            let v = vt.clone() / rho;                         // v(i) = v~(i) / rho(i)
            y = y / rho;                                      // y = y / rho(i)
            let w = wt.clone() / xi;                          // w(i) = w~(i) / xi(i)
            z = z / xi;                                       // z = z / xi(i)
            let delta = z.dot( &y );                          // delta(i) = z^T y
            if delta == 0.0 { return Err( r.norm_2() / normb ); }
            let yt = y.clone();                               // solve M2 y~ = y
            let zt = z.clone();                               // solve M1^T z~ = z
            if i == 1 {
                p = yt;                                       // p(1) = y~
                q = zt;                                       // q(1) = z~
            } else {
                p = yt - ( xi * delta / eps ) * p;            // p(i) = y~ - ( xi(i) delta(i) / eps(i-1) ) p(i-1)
                q = zt - ( rho * delta / eps ) * q;           // q(i) = z~ - ( rho(i) delta(i) / eps(i-1) ) q(i-1)
            }
            let pt = self.multiply( &p );                     // p~ = A p(i)
            eps = q.dot( &pt );                               // eps(i) = q(i)^T p~
            if eps == 0.0 { return Err( r.norm_2() / normb ); }
            let beta = eps / delta;                           // beta(i) = eps(i) / delta(i)
            if beta == 0.0 { return Err( r.norm_2() / normb ); }
            vt = pt.clone() - beta * v;                       // v~(i+1) = p~ - beta(i) v(i)
            y = vt.clone();                                   // solve M1 y = v~(i+1)
            let rho_i = rho;
            rho = y.norm_2();                                 // rho(i+1) = ||y||
            wt = self.transpose_multiply( &q ) - beta * w;    // w~(i+1) = A^T q(i) - beta(i) w(i)
            z = wt.clone();                                   // solve M2^T z = w~(i+1)
            xi = z.norm_2();                                  // xi(i+1) = ||z||
            let gamma_old = gamma;
            let theta_old = theta;
            theta = rho / ( gamma_old * beta );               // theta(i) = rho(i+1) / ( gamma(i-1) |beta(i)| )
            gamma = 1.0 / ( 1.0 + theta * theta ).sqrt();     // gamma(i) = 1 / sqrt( 1 + theta(i)^2 )
            if gamma == 0.0 { return Err( r.norm_2() / normb ); }
            eta = -eta * rho_i * gamma * gamma / ( beta * gamma_old * gamma_old );   // eta(i) = -eta(i-1) rho(i) gamma(i)^2 / ( beta(i) gamma(i-1)^2 )
            if i == 1 {
                d = eta * p.clone();                          // d(1) = eta(1) p(1)
                s = eta * pt.clone();                         // s(1) = eta(1) p~
            } else {
                let c = ( theta_old * gamma ) * ( theta_old * gamma );
                d = eta * p.clone() + c * d;                  // d(i) = eta(i) p(i) + ( theta(i-1) gamma(i) )^2 d(i-1)
                s = eta * pt.clone() + c * s;                 // s(i) = eta(i) p~ + ( theta(i-1) gamma(i) )^2 s(i-1)
            }
            *x += d.clone();                                  // x(i) = x(i-1) + d(i)
            r -= s.clone();                                   // r(i) = r(i-1) - s(i)
            if r.norm_2() / normb <= tol { return Ok( i ); }
        }
        Err( r.norm_2() / normb )
    }
}
