#!/bin/sh
# development helper: dump the PDB of /repo (or $1) to /tmp/pdbx/pdb.json
R=${1:-/repo}
rm -rf /tmp/pdbx/t; mkdir -p /tmp/pdbx
cd $R && LD_LIBRARY_PATH=$(rustc +nightly --print sysroot)/lib RUSTFLAGS="-Awarnings" RUSTC_WORKSPACE_WRAPPER=/verif/driver/target/release/ohsl-pdb-driver PDB_OUT=/tmp/pdbx/pdb.json CARGO_TARGET_DIR=/tmp/pdbx/t cargo +nightly check --offline --lib --quiet
