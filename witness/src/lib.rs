//! Compile-time witnesses for the type-level clauses of the ohsl properties, written as an external
//! user of the crate would see them.  Every `compile_fail,E....` block is paired with a compiling twin
//! (`no_run`) that differs only by the offending construct, so a witness cannot "pass" because of a
//! wrong path or a typo.  Nothing here is executed: rustdoc only compiles the blocks.
//!
//! Run with `cargo +nightly test --doc --offline` (the error codes are only enforced on nightly).

/// C02 / C20 — an element of a matrix cannot be written through a shared reference.
/// ```compile_fail,E0596
/// fn f(m: &ohsl::Matrix<f64>) { m[(0, 0)] = 1.0; }
/// ```
/// Twin: the same write through `&mut` compiles.
/// ```no_run
/// fn f(m: &mut ohsl::Matrix<f64>) { m[(0, 0)] = 1.0; }
/// ```
pub struct MatrixSharedRefIsReadOnly;

/// C20 — an element of a vector cannot be written through a shared reference.
/// ```compile_fail,E0596
/// fn f(v: &ohsl::Vector<f64>) { v[0] = 1.0; }
/// ```
/// ```no_run
/// fn f(v: &mut ohsl::Vector<f64>) { v[0] = 1.0; }
/// ```
pub struct VectorSharedRefIsReadOnly;

/// C02 — `determinant` and `inverse` are callable through `&Matrix` (they take `&self`) ...
/// ```no_run
/// fn f(m: &ohsl::Matrix<f64>) -> (f64, ohsl::Matrix<f64>) { (m.determinant(), m.inverse()) }
/// ```
/// ... while the in-place factorisation they use internally is not:
/// ```compile_fail,E0596
/// fn f(m: &ohsl::Matrix<f64>) { let _ = m.lu_decomp_in_place(); }
/// ```
pub struct DeterminantTakesSharedRef;

/// C20 — the owned operator forms really consume their operands ...
/// ```compile_fail,E0382
/// fn f(a: ohsl::Matrix<f64>, b: ohsl::Matrix<f64>) -> usize { let _c = a + b; a.rows() }
/// ```
/// ... and the borrowing forms leave them usable:
/// ```no_run
/// fn f(a: ohsl::Matrix<f64>, b: ohsl::Matrix<f64>) -> usize { let _c = &a + &b; a.rows() }
/// ```
pub struct OwnedOperatorsConsume;

/// C20 — `Sparse` is not `Clone` (the clone-independence clause covers the six types that are).
/// ```compile_fail,E0277
/// fn f(s: &ohsl::Sparse<f64>) -> ohsl::Sparse<f64> { Clone::clone(s) }
/// ```
/// ```no_run
/// fn f(s: &ohsl::Matrix<f64>) -> ohsl::Matrix<f64> { Clone::clone(s) }
/// ```
pub struct SparseIsNotClone;

/// C17 — the Newton solvers take `&self`; the configuration can only be changed through `&mut`.
/// ```no_run
/// fn f(n: &ohsl::Newton<f64>) -> Result<f64, f64> { n.solve(&|x| x * x - 2.0) }
/// ```
/// ```compile_fail,E0596
/// fn f(n: &ohsl::Newton<f64>) { n.guess(1.0); }
/// ```
/// ```no_run
/// fn f(n: &mut ohsl::Newton<f64>) { n.guess(1.0); n.tolerance(1e-10); n.iterations(5); n.delta(1e-6); }
/// ```
pub struct NewtonSolveTakesSharedRef;

/// C17 — the configuration fields are private: an external caller cannot write them at all.
/// ```compile_fail,E0616
/// fn f(n: &mut ohsl::Newton<f64>) { n.max_iter = 3; }
/// ```
/// Twin: the setter is the only way in, and it needs `&mut`.
/// ```no_run
/// fn f(n: &mut ohsl::Newton<f64>) { n.iterations(3); }
/// ```
pub struct NewtonFieldsArePrivate;

/// C16 — the threaded dot product takes both operands by shared reference.
/// ```no_run
/// fn f(a: &ohsl::Vector<f64>, b: &ohsl::Vector<f64>) -> f64 { a.dot_f64(b) }
/// ```
/// A mutable element write through those references is rejected:
/// ```compile_fail,E0596
/// fn f(a: &ohsl::Vector<f64>, b: &ohsl::Vector<f64>) -> f64 { a.vec[0] = 1.0; a.dot_f64(b) }
/// ```
pub struct DotTakesSharedRefs;

/// C20 — solvers take the right-hand side by shared reference; the banded and tridiagonal solvers
/// even take the matrix by shared reference.
/// ```no_run
/// fn f(a: &ohsl::Banded<f64>, t: &ohsl::Tridiagonal<f64>, b: &ohsl::Vector<f64>) -> (ohsl::Vector<f64>, ohsl::Vector<f64>) { (a.solve(b), t.solve(b)) }
/// ```
/// ```compile_fail,E0596
/// fn f(a: &ohsl::Banded<f64>) { a.fill(0.0); }
/// ```
pub struct SolversTakeSharedRefs;
